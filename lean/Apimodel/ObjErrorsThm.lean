import Apimodel.AcceptThm
/-!
# C02 for objects, one level: the children of an object's error are exactly its violating keys
(the law composes with itself through nested objects; combined with `collect_errs` for arrays it gives
the location and completeness clauses for every nesting)
-/
namespace Api

theorem mem_setChild_self (k : Key) (e : Err) : ∀ cs, (k, e) ∈ setChild k e cs
  | [] => by simp [setChild]
  | (k', e') :: cs => by
    rw [setChild]
    split
    · exact List.mem_cons_self ..
    · split
      · exact List.mem_cons_self ..
      · exact List.mem_cons_of_mem _ (mem_setChild_self k e cs)

theorem mem_setChild_of_mem {k : Key} {e : Err} {p : Key × Err} (hk : p.1 ≠ k) : ∀ {cs}, p ∈ cs → p ∈ setChild k e cs
  | (k', e') :: cs, h => by
    rw [setChild]
    split
    · next heq =>
      rcases List.mem_cons.1 h with rfl | h'
      · exact absurd heq.symm hk
      · exact List.mem_cons_of_mem _ h'
    · split
      · exact List.mem_cons_of_mem _ h
      · rcases List.mem_cons.1 h with rfl | h'
        · exact List.mem_cons_self ..
        · exact List.mem_cons_of_mem _ (mem_setChild_of_mem hk h')

theorem mem_setChild_inv {k : Key} {e : Err} {p : Key × Err} : ∀ {cs}, p ∈ setChild k e cs → p = (k, e) ∨ p ∈ cs
  | [], h => by simp [setChild] at h; exact Or.inl h
  | (k', e') :: cs, h => by
    rw [setChild] at h
    split at h
    · rcases List.mem_cons.1 h with rfl | h'
      · exact Or.inl rfl
      · exact Or.inr (List.mem_cons_of_mem _ h')
    · split at h
      · rcases List.mem_cons.1 h with rfl | h'
        · exact Or.inl rfl
        · exact Or.inr h'
      · rcases List.mem_cons.1 h with rfl | h'
        · exact Or.inr (List.mem_cons_self ..)
        · cases mem_setChild_inv h' with
          | inl h1 => exact Or.inl h1
          | inr h2 => exact Or.inr (List.mem_cons_of_mem _ h2)

/-- what is wrong with one declared field, if anything -/
def fieldViolation (f : FieldInfo) (m : Meth) (kvs : List (String × Py)) : Option Err :=
  match lookupKey kvs f.alias with
  | some x => (match run m x with | .invalid e => some e | _ => Option.none)
  | Option.none => if f.required then some (.leaf .missing) else Option.none

/-- **soundness** of the field loop: every child is the violation of a declared field -/
theorem runFields_sound {fs : List (FieldInfo × Meth)} (hnf : NoFbod fs) (u kvs) :
    ∀ p ∈ (runFields u fs kvs).errs, ∃ fm ∈ fs, p.1 = .name fm.1.alias ∧ fieldViolation fm.1 fm.2 kvs = some p.2 := by
  induction fs with
  | nil => intro p hp; rw [runFields] at hp; cases hp
  | cons fm fs ih =>
    obtain ⟨f, m⟩ := fm
    have hfb : f.fbod = false := hnf (f, m) (List.mem_cons_self ..)
    have ih' := ih (fun x hx => hnf x (List.mem_cons_of_mem _ hx))
    intro p hp
    rw [runFields_cons] at hp
    simp only [hfb, Bool.and_false] at hp
    have lift : p ∈ (runFields u fs kvs).errs → ∃ fm ∈ (f, m) :: fs, p.1 = .name fm.1.alias ∧
        fieldViolation fm.1 fm.2 kvs = some p.2 := fun h => by
      obtain ⟨q, hq, h1, h2⟩ := ih' p h; exact ⟨q, List.mem_cons_of_mem _ hq, h1, h2⟩
    cases hl : lookupKey kvs f.alias with
    | none =>
      rw [hl] at hp
      simp only [Option.map_none, stepField] at hp
      cases hreq : f.required
      · rw [hreq] at hp; simp only [Bool.false_eq_true, if_false] at hp; exact lift hp
      · rw [hreq] at hp; simp only [if_true] at hp
        cases mem_setChild_inv hp with
        | inl h => exact ⟨(f, m), List.mem_cons_self .., by rw [h], by rw [h]; simp [fieldViolation, hl, hreq]⟩
        | inr h => exact lift h
    | some x =>
      rw [hl] at hp
      simp only [Option.map_some, stepField] at hp
      cases hr : run m x with
      | ok v => rw [hr] at hp; exact lift hp
      | crash c => rw [hr] at hp; cases hp
      | invalid e =>
        rw [hr] at hp
        simp only [Bool.not_false, Bool.or_true, if_true] at hp
        cases mem_setChild_inv hp with
        | inl h => exact ⟨(f, m), List.mem_cons_self .., by rw [h], by rw [h]; simp [fieldViolation, hl, hr]⟩
        | inr h => exact lift h

/-- **completeness** of the field loop: every violating field has its child, with its own error, provided
    aliases are distinct (a later field never overwrites an earlier one) and no field method crashes -/
theorem runFields_complete {fs : List (FieldInfo × Meth)} (hnf : NoFbod fs) (ha : (aliasesM fs).Nodup) (u kvs)
    (hc : (runFields u fs kvs).crash = Option.none) :
    ∀ fm ∈ fs, ∀ e, fieldViolation fm.1 fm.2 kvs = some e → (Key.name fm.1.alias, e) ∈ (runFields u fs kvs).errs := by
  induction fs with
  | nil => intro fm h; cases h
  | cons fm0 fs ih =>
    obtain ⟨f, m⟩ := fm0
    have hfb : f.fbod = false := hnf (f, m) (List.mem_cons_self ..)
    rw [aliasesM_cons, List.nodup_cons] at ha
    rw [runFields_cons] at hc ⊢
    simp only [hfb, Bool.and_false] at hc ⊢
    -- the rest of the loop did not crash either
    have hc' : (runFields u fs kvs).crash = Option.none := by
      cases hl : lookupKey kvs f.alias with
      | none => rw [hl] at hc; simp only [Option.map_none, stepField] at hc; split at hc <;> exact hc
      | some x =>
        rw [hl] at hc; simp only [Option.map_some, stepField] at hc
        cases hr : run m x with
        | ok v => rw [hr] at hc; exact hc
        | crash c => rw [hr] at hc; cases hc
        | invalid e => rw [hr] at hc; simp only [Bool.not_false, Bool.or_true, if_true] at hc; exact hc
    have ih' := ih (fun x hx => hnf x (List.mem_cons_of_mem _ hx)) ha.2 hc'
    have alias_ne : ∀ fm ∈ fs, fm.1.alias ≠ f.alias := by
      intro fm hfm heq
      apply ha.1
      rw [← heq]
      clear ih ih' hc hc' hnf ha
      induction fs with
      | nil => cases hfm
      | cons a fs ihf =>
        obtain ⟨g, n⟩ := a
        rw [aliasesM_cons]
        rcases List.mem_cons.1 hfm with rfl | h'
        · exact List.mem_cons_self ..
        · exact List.mem_cons_of_mem _ (ihf h')
    intro fm hfm e hv
    rcases List.mem_cons.1 hfm with rfl | hfm'
    · -- the head field
      simp only [fieldViolation] at hv
      cases hl : lookupKey kvs f.alias with
      | none =>
        rw [hl] at hv
        simp only [hl, Option.map_none, stepField]
        cases hreq : f.required
        · rw [hreq] at hv; simp at hv
        · rw [hreq] at hv; simp only [if_true, Option.some.injEq] at hv; subst hv
          simp only [if_true]; exact mem_setChild_self _ _ _
      | some x =>
        rw [hl] at hv
        dsimp only at hv
        simp only [hl, Option.map_some, stepField]
        cases hr : run m x with
        | ok v => rw [hr] at hv; cases hv
        | crash c => rw [hr] at hv; cases hv
        | invalid e' =>
          rw [hr] at hv; simp only [Option.some.injEq] at hv; subst hv
          simp only [Bool.not_false, Bool.or_true, if_true]; exact mem_setChild_self _ _ _
    · -- a later field: its child survives the insertion of the head's
      have hmem := ih' fm hfm' e hv
      have hne : (Key.name fm.1.alias, e).1 ≠ Key.name f.alias := by
        intro h; exact alias_ne fm hfm' (by simpa using h)
      cases hl : lookupKey kvs f.alias with
      | none =>
        simp only [Option.map_none, stepField]
        split
        · exact mem_setChild_of_mem hne hmem
        · exact hmem
      | some x =>
        simp only [Option.map_some, stepField]
        cases hr : run m x with
        | ok v => exact hmem
        | crash c => rw [hl] at hc; simp only [Option.map_some, stepField, hr] at hc; cases hc
        | invalid e' =>
          simp only [Bool.not_false, Bool.or_true, if_true]; exact mem_setChild_of_mem hne hmem

/-! ### unexpected keys -/
theorem mem_addUnexpected_inv : ∀ (ks : List String) (errs : List (Key × Err)) (p : Key × Err),
    p ∈ addUnexpected ks errs → p ∈ errs ∨ ∃ k ∈ ks, p = (Key.name k, Err.leaf .unexpected)
  | [], errs, p, h => Or.inl (by simpa [addUnexpected] using h)
  | k :: ks, errs, p, h => by
    have : addUnexpected (k :: ks) errs = addUnexpected ks (setChild (.name k) (.leaf .unexpected) errs) := by
      simp [addUnexpected]
    rw [this] at h
    cases mem_addUnexpected_inv ks _ p h with
    | inl h1 =>
      cases mem_setChild_inv h1 with
      | inl h2 => exact Or.inr ⟨k, List.mem_cons_self .., h2⟩
      | inr h2 => exact Or.inl h2
    | inr h1 =>
      obtain ⟨k', hk', hp⟩ := h1
      exact Or.inr ⟨k', List.mem_cons_of_mem _ hk', hp⟩

theorem mem_addUnexpected_of_mem : ∀ (ks : List String) (errs : List (Key × Err)) (p : Key × Err),
    p ∈ errs → (∀ k ∈ ks, p.1 ≠ Key.name k) → p ∈ addUnexpected ks errs
  | [], errs, p, h, _ => by simpa [addUnexpected] using h
  | k :: ks, errs, p, h, hne => by
    have : addUnexpected (k :: ks) errs = addUnexpected ks (setChild (.name k) (.leaf .unexpected) errs) := by
      simp [addUnexpected]
    rw [this]
    exact mem_addUnexpected_of_mem ks _ p (mem_setChild_of_mem (hne k (List.mem_cons_self ..)) h)
      (fun k' hk' => hne k' (List.mem_cons_of_mem _ hk'))

theorem mem_addUnexpected_key : ∀ (ks : List String) (errs : List (Key × Err)) (k : String),
    (k ∈ ks ∨ (Key.name k, Err.leaf .unexpected) ∈ errs) → (Key.name k, Err.leaf .unexpected) ∈ addUnexpected ks errs
  | [], errs, k, h => by
    cases h with
    | inl h => cases h
    | inr h => simpa [addUnexpected] using h
  | k0 :: ks, errs, k, h => by
    have : addUnexpected (k0 :: ks) errs = addUnexpected ks (setChild (.name k0) (.leaf .unexpected) errs) := by
      simp [addUnexpected]
    rw [this]
    apply mem_addUnexpected_key ks _ k
    by_cases hk : k = k0
    · subst hk; exact Or.inr (mem_setChild_self _ _ _)
    · cases h with
      | inl h =>
        rcases List.mem_cons.1 h with rfl | h'
        · exact absurd rfl hk
        · exact Or.inl h'
      | inr h => exact Or.inr (mem_setChild_of_mem (by simpa using hk) h)

theorem mem_unexpectedKeys {aliases : List String} {kvs : List (String × Py)} {k : String}
    (h : k ∈ unexpectedKeys aliases kvs) : k ∉ aliases := by
  unfold unexpectedKeys at h
  rw [List.mem_map] at h
  obtain ⟨kv, hkv, rfl⟩ := h
  simpa using (List.mem_filter.1 hkv).2

theorem alias_mem_aliasesM : ∀ {fs : List (FieldInfo × Meth)} {fm}, fm ∈ fs → fm.1.alias ∈ aliasesM fs
  | (g, n) :: fs, fm, h => by
    rw [aliasesM_cons]
    rcases List.mem_cons.1 h with rfl | h'
    · exact List.mem_cons_self ..
    · exact List.mem_cons_of_mem _ (alias_mem_aliasesM h')

/-! ### `dependent_required` errors -/
theorem addDepMissing_cons (m : String × List String) (ms) (errs : List (Key × Err)) :
    addDepMissing (m :: ms) errs = addDepMissing ms (setChild (.name m.1) (.leaf (.missingRequiredBy m.2)) errs) := by
  simp [addDepMissing]

theorem mem_addDepMissing_inv : ∀ (ms : List (String × List String)) (errs : List (Key × Err)) (p : Key × Err),
    p ∈ addDepMissing ms errs → p ∈ errs ∨ ∃ m ∈ ms, p = (Key.name m.1, Err.leaf (.missingRequiredBy m.2))
  | [], errs, p, h => Or.inl (by simpa [addDepMissing] using h)
  | m :: ms, errs, p, h => by
    rw [addDepMissing_cons] at h
    cases mem_addDepMissing_inv ms _ p h with
    | inl h1 =>
      cases mem_setChild_inv h1 with
      | inl h2 => exact Or.inr ⟨m, List.mem_cons_self .., h2⟩
      | inr h2 => exact Or.inl h2
    | inr h1 =>
      obtain ⟨m', hm', hp⟩ := h1
      exact Or.inr ⟨m', List.mem_cons_of_mem _ hm', hp⟩

theorem mem_addDepMissing_of_mem : ∀ (ms : List (String × List String)) (errs : List (Key × Err)) (p : Key × Err),
    p ∈ errs → (∀ m ∈ ms, p.1 ≠ Key.name m.1) → p ∈ addDepMissing ms errs
  | [], errs, p, h, _ => by simpa [addDepMissing] using h
  | m :: ms, errs, p, h, hne => by
    rw [addDepMissing_cons]
    exact mem_addDepMissing_of_mem ms _ p (mem_setChild_of_mem (hne m (List.mem_cons_self ..)) h)
      (fun m' hm' => hne m' (List.mem_cons_of_mem _ hm'))

theorem mem_addDepMissing_key : ∀ (ms : List (String × List String)) (errs : List (Key × Err)) (m : String × List String),
    m ∈ ms → (ms.map (·.1)).Nodup → (Key.name m.1, Err.leaf (.missingRequiredBy m.2)) ∈ addDepMissing ms errs
  | m0 :: ms, errs, m, h, hn => by
    rw [addDepMissing_cons]
    rw [List.map_cons, List.nodup_cons] at hn
    rcases List.mem_cons.1 h with rfl | h'
    · apply mem_addDepMissing_of_mem ms _ _ (mem_setChild_self _ _ _)
      intro m' hm' heq
      have : m.1 = m'.1 := by simpa using heq
      exact hn.1 (this ▸ List.mem_map.2 ⟨m', hm', rfl⟩)
    · exact mem_addDepMissing_key ms _ m h' hn.2

theorem mem_depMissing : ∀ {infos : List FieldInfo} {kvs : List (String × Py)} {m : String × List String},
    m ∈ depMissing infos kvs → ∃ f ∈ infos, depViolated f kvs = true ∧ m = (f.alias, requiringPresent f kvs)
  | f :: fs, kvs, m, h => by
    rw [depMissing] at h
    split at h
    · next hv =>
      rcases List.mem_cons.1 h with rfl | h'
      · exact ⟨f, List.mem_cons_self .., hv, rfl⟩
      · obtain ⟨g, hg, hgv, hm⟩ := mem_depMissing h'
        exact ⟨g, List.mem_cons_of_mem _ hg, hgv, hm⟩
    · obtain ⟨g, hg, hgv, hm⟩ := mem_depMissing h
      exact ⟨g, List.mem_cons_of_mem _ hg, hgv, hm⟩

theorem depMissing_mem : ∀ {infos : List FieldInfo} {kvs : List (String × Py)} {f : FieldInfo},
    f ∈ infos → depViolated f kvs = true → (f.alias, requiringPresent f kvs) ∈ depMissing infos kvs
  | g :: fs, kvs, f, h, hv => by
    rw [depMissing]
    rcases List.mem_cons.1 h with rfl | h'
    · rw [if_pos hv]; exact List.mem_cons_self ..
    · split
      · exact List.mem_cons_of_mem _ (depMissing_mem h' hv)
      · exact depMissing_mem h' hv

theorem depMissing_keys_sublist : ∀ (infos : List FieldInfo) (kvs : List (String × Py)),
    ((depMissing infos kvs).map (·.1)).Sublist (infos.map (·.alias))
  | [], _ => List.Sublist.slnil
  | f :: fs, kvs => by
    rw [depMissing]
    split
    · exact (depMissing_keys_sublist fs kvs).cons₂ _
    · exact (depMissing_keys_sublist fs kvs).cons _

theorem infosM_aliases : ∀ (fs : List (FieldInfo × Meth)), (infosM fs).map (·.alias) = aliasesM fs
  | [] => rfl
  | (f, m) :: fs => by rw [infosM, aliasesM_cons, List.map_cons, infosM_aliases fs]

theorem eq_of_alias_eq : ∀ {fs : List (FieldInfo × Meth)}, (aliasesM fs).Nodup → ∀ {a b : FieldInfo × Meth}, a ∈ fs → b ∈ fs →
    a.1.alias = b.1.alias → a = b
  | [], _, _, _, ha, _, _ => by cases ha
  | (f, m) :: fs, hn, a, b, ha, hb, hab => by
    rw [aliasesM_cons, List.nodup_cons] at hn
    rcases List.mem_cons.1 ha with ha0 | ha'
    · rcases List.mem_cons.1 hb with hb0 | hb'
      · rw [ha0, hb0]
      · exfalso
        have h1 := alias_mem_aliasesM hb'
        rw [← hab, ha0] at h1
        exact hn.1 h1
    · rcases List.mem_cons.1 hb with hb0 | hb'
      · exfalso
        have h1 := alias_mem_aliasesM ha'
        rw [hab, hb0] at h1
        exact hn.1 h1
      · exact eq_of_alias_eq hn.2 ha' hb' hab

theorem finishObj_invalid {ci infos own ap aliases} {acc : FAcc} {kvs : List (String × Py)} {e : Err}
    (hc : acc.crash = Option.none) (h : finishObj ci infos own ap aliases acc kvs = .invalid e) :
    e = .mk own (addDepMissing (depMissing infos kvs) (if (kvs.length != acc.count && !ap) = true
                 then addUnexpected (unexpectedKeys aliases kvs) acc.errs else acc.errs)) := by
  unfold finishObj at h
  rw [hc] at h
  simp only at h
  generalize hE : (addDepMissing (depMissing infos kvs) (if (kvs.length != acc.count && !ap) = true
                 then addUnexpected (unexpectedKeys aliases kvs) acc.errs else acc.errs)) = errs at h ⊢
  by_cases hb : (errs.isEmpty && own.isEmpty) = true
  · rw [if_pos hb] at h; cases h
  · rw [if_neg hb] at h; cases h; rfl

/-- **C02 for `ObjectMethod`, one level.** When an object is rejected, its own messages are the
    property-count violations, and its children are exactly: the violation of every declared field that
    has one (its value's own error under its alias, or `missing`), `missing property (required by [...])` under every
    absent field that a present field requires (`dependent_required`), and — unless additional properties are
    allowed — `unexpected property` under every undeclared key. Nothing else, nothing missing. -/
theorem C02_object_level {ci : ClassInfo} {ctor : Ctor} {c : Constraints} {ap : Bool}
    {fs : List (FieldInfo × Meth)} {kvs : List (String × Py)} {e : Err}
    (hnf : NoFbod fs) (ha : (aliasesM fs).Nodup) (hk : (keysOf kvs).Nodup)
    (hc : (runFields true fs kvs).crash = Option.none)
    (h : run (.obj ci ctor c ap fs) (.dict kvs) = .invalid e) :
    e.msgs = c.dictErrors kvs.length ∧
    (∀ p ∈ e.children,
        (∃ fm ∈ fs, p.1 = .name fm.1.alias ∧ fieldViolation fm.1 fm.2 kvs = some p.2) ∨
        (ap = false ∧ ∃ k ∈ unexpectedKeys (aliasesM fs) kvs, p = (Key.name k, Err.leaf .unexpected)) ∨
        (∃ f ∈ infosM fs, depViolated f kvs = true ∧
            p = (Key.name f.alias, Err.leaf (.missingRequiredBy (requiringPresent f kvs))))) ∧
    (∀ fm ∈ fs, ∀ e', fieldViolation fm.1 fm.2 kvs = some e' → (Key.name fm.1.alias, e') ∈ e.children) ∧
    (ap = false → ∀ k ∈ unexpectedKeys (aliasesM fs) kvs, (Key.name k, Err.leaf .unexpected) ∈ e.children) ∧
    (∀ f ∈ infosM fs, depViolated f kvs = true →
        (Key.name f.alias, Err.leaf (.missingRequiredBy (requiringPresent f kvs))) ∈ e.children) := by
  rw [run] at h
  simp only [onDict] at h
  have he := finishObj_invalid hc h
  subst he
  have hcount := (runFields_clean hnf true kvs).2 hc
  -- the keys of the dependent-required errors are aliases of absent, optional fields
  have hdepkey : ∀ m ∈ depMissing (infosM fs) kvs, m.1 ∈ aliasesM fs ∧
      ∀ fm ∈ fs, fm.1.alias = m.1 → fieldViolation fm.1 fm.2 kvs = Option.none := by
    intro m hm
    obtain ⟨f, hf, hv, rfl⟩ := mem_depMissing hm
    obtain ⟨fm', hfm', rfl⟩ := mem_infosM hf
    refine ⟨alias_mem_aliasesM hfm', fun fm hfm heq => ?_⟩
    have : fm = fm' := eq_of_alias_eq ha hfm hfm' heq
    subst this
    unfold depViolated at hv
    simp only [Bool.and_eq_true, Option.isNone_iff_eq_none, Bool.not_eq_true'] at hv
    unfold fieldViolation
    rw [hv.1.1]; simp [hv.1.2]
  refine ⟨rfl, ?_, ?_, ?_, ?_⟩
  · intro p hp
    simp only [Err.children] at hp
    cases mem_addDepMissing_inv _ _ p hp with
    | inr hd =>
      obtain ⟨m, hm, rfl⟩ := hd
      obtain ⟨f, hf, hv, rfl⟩ := mem_depMissing hm
      exact Or.inr (Or.inr ⟨f, hf, hv, rfl⟩)
    | inl hp =>
      split at hp
      · next hcond =>
        cases mem_addUnexpected_inv _ _ p hp with
        | inl h1 => exact Or.inl (runFields_sound hnf true kvs p h1)
        | inr h1 =>
          have hap : ap = false := by
            simp only [Bool.and_eq_true, Bool.not_eq_true'] at hcond; exact hcond.2
          exact Or.inr (Or.inl ⟨hap, h1⟩)
      · exact Or.inl (runFields_sound hnf true kvs p hp)
  · intro fm hfm e' hv
    have hmem := runFields_complete hnf ha true kvs hc fm hfm e' hv
    simp only [Err.children]
    apply mem_addDepMissing_of_mem
    · split
      · apply mem_addUnexpected_of_mem _ _ _ hmem
        intro k hk' heq
        have : fm.1.alias = k := by simpa using heq
        exact mem_unexpectedKeys hk' (this ▸ alias_mem_aliasesM hfm)
      · exact hmem
    · intro m hm heq
      have hal : fm.1.alias = m.1 := by simpa using heq
      have := (hdepkey m hm).2 fm hfm hal
      rw [hv] at this; cases this
  · intro hap k hk'
    simp only [Err.children]
    have hne : unexpectedKeys (aliasesM fs) kvs ≠ [] := fun h0 => by rw [h0] at hk'; cases hk'
    have hlen : kvs.length ≠ (runFields true fs kvs).count := by
      rw [hcount]; intro heq; exact hne ((count_eq_iff hk ha).1 heq)
    have hcond : (kvs.length != (runFields true fs kvs).count && !ap) = true := by
      simp [hap, hlen]
    rw [if_pos hcond]
    apply mem_addDepMissing_of_mem _ _ _ (mem_addUnexpected_key _ _ k (Or.inl hk'))
    intro m hm heq
    have hkm : k = m.1 := by simpa using heq
    exact mem_unexpectedKeys hk' (hkm ▸ (hdepkey m hm).1)
  · intro f hf hv
    simp only [Err.children]
    have hn : ((depMissing (infosM fs) kvs).map (·.1)).Nodup :=
      (depMissing_keys_sublist (infosM fs) kvs).nodup (infosM_aliases fs ▸ ha)
    exact mem_addDepMissing_key _ _ (f.alias, requiringPresent f kvs) (depMissing_mem hf hv) hn

end Api
