import Apimodel.FieldsSet
import Apimodel.BExpr
/-! Set expressions of `apischema/fields.py` as the translator reads them (`|`, `-`, `{*a, *b}`; anything else an atom). -/
namespace Api

inductive SExpr where
  | atom : String → SExpr
  | union : SExpr → SExpr → SExpr
  | diff : SExpr → SExpr → SExpr
  deriving Repr, DecidableEq

namespace SExpr
def eval (ρ : String → List String) : SExpr → FSet
  | .atom s => ofList (ρ s)
  | .union a b => Api.union (eval ρ a) (eval ρ b)
  | .diff a b => Api.diff (eval ρ a) (eval ρ b)
def atoms : SExpr → List String
  | .atom s => [s]
  | .union a b => atoms a ++ atoms b
  | .diff a b => atoms a ++ atoms b
end SExpr
end Api
