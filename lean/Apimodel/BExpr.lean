/-! Boolean conditions of the Python source, kept in their written structure (tools/extract_bexpr.py): `and` / `or` / `not` /
conditional expressions; every other sub-expression is an atom named by its source text.  `eval` gives such a condition a value under
an assignment of the atoms; the source-tie theorems (OmitSrcThm) interpret the atoms by the quantities of the model. -/
namespace Api

inductive BExpr where
  | atom : String → BExpr
  | not : BExpr → BExpr
  | and : BExpr → BExpr → BExpr
  | or : BExpr → BExpr → BExpr
  | ite : BExpr → BExpr → BExpr → BExpr
  deriving Repr, BEq, DecidableEq

namespace BExpr

def eval (ρ : String → Bool) : BExpr → Bool
  | .atom s => ρ s
  | .not e => !(eval ρ e)
  | .and a b => eval ρ a && eval ρ b
  | .or a b => eval ρ a || eval ρ b
  | .ite c a b => if eval ρ c then eval ρ a else eval ρ b

/-- the atoms of a condition, in reading order -/
def atoms : BExpr → List String
  | .atom s => [s]
  | .not e => atoms e
  | .and a b => atoms a ++ atoms b
  | .or a b => atoms a ++ atoms b
  | .ite c a b => atoms c ++ atoms a ++ atoms b

/-- an assignment given by a finite table; an atom outside the table is `unknown` (the theorems then fail to close) -/
def lookup (tbl : List (String × Bool)) (s : String) : Option Bool :=
  match tbl with
  | [] => none
  | (k, v) :: rest => if k == s then some v else lookup rest s

/-- every atom of the condition is interpreted by the table -/
def covered (tbl : List (String × Bool)) (e : BExpr) : Bool := (atoms e).all (fun s => (lookup tbl s).isSome)

def evalT (tbl : List (String × Bool)) (e : BExpr) : Bool := eval (fun s => (lookup tbl s).getD false) e

end BExpr
end Api
