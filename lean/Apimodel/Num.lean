import Apimodel.Basic
/-! # `float(int)`: exact model of the int → double conversion (round half to even, overflow) -/
namespace Api

/-- number of bits of a natural number -/
def bitLength (n : Nat) : Nat := if n = 0 then 0 else Nat.log2 n + 1

/-- round a natural number to 53 significant bits, ties to even -/
def roundNat53 (n : Nat) : Nat :=
  let bl := bitLength n
  if bl ≤ 53 then n
  else
    let e := bl - 53
    let q := n >>> e
    let r := n - (q <<< e)          -- discarded bits
    let half := 1 <<< (e - 1)
    let q' := if r > half then q + 1 else if r < half then q else (if q % 2 = 1 then q + 1 else q)
    q' <<< e

/-- `2**1024 - 2**970`: smallest magnitude whose conversion overflows -/
def floatOverflowBound : Nat := 2 ^ 1024 - 2 ^ 970

/-- `float(i)`; `none` = `OverflowError` -/
def intToFlt (i : Int) : Option Flt :=
  if i.natAbs ≥ floatOverflowBound then none
  else
    let m := roundNat53 i.natAbs
    some (.fin (if i < 0 then -(m : Int) else (m : Int)))

-- proofs treat the conversion as opaque (its definition mentions `2 ^ 1024`)
attribute [irreducible] intToFlt floatOverflowBound

end Api
