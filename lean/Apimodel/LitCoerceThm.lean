import Apimodel.CoerceUnionThm
/-! Literals under coercion (C14, C03; row 80): which value is returned does not depend on the order in which the classes of the literal values are tried,
as long as the classes the datum can be coerced into a value through agree on the result - in particular when there is at most one such class.  (The
tuple `LiteralMethod.types` is made from a *set* of classes: its order is the interpreter's.) -/
namespace Api

/-- the coerced datum, when coercing to class `c` succeeds and lands on a literal value -/
def litHit (env : CoerceEnv) (vs : List Lit) (d : Py) (c : JClass) : Option Py :=
  match coerce env c d with
  | .ok d' => if (runLiteral.lastMatch d' vs 0 Option.none).isSome then some d' else Option.none
  | _ => Option.none

/-- `tryLitClasses` is "the first class that hits" -/
theorem tryLitClasses_eq (env : CoerceEnv) (vs en) {d : Py} (h : ∀ kvs, d ≠ .dictNS kvs) :
    ∀ cs, tryLitClasses env vs en d cs =
      match cs.findSome? (litHit env vs d) with
      | some d' => runLiteral vs en d'
      | Option.none => runLiteral vs en d
  | [] => by rw [tryLitClasses]; rfl
  | c :: cs => by
    rw [tryLitClasses, List.findSome?_cons]
    cases hc : coerce env c d with
    | ok d' =>
      cases hm : runLiteral.lastMatch d' vs 0 Option.none with
      | some p =>
        have hh : litHit env vs d c = some d' := by unfold litHit; rw [hc]; simp [hm]
        rw [hh]; simp only [hm]
      | none =>
        have hh : litHit env vs d c = Option.none := by unfold litHit; rw [hc]; simp [hm]
        rw [hh]; simp only [hm]; exact tryLitClasses_eq env vs en h cs
    | invalid e =>
      have hh : litHit env vs d c = Option.none := by unfold litHit; rw [hc]
      rw [hh]; simp only; exact tryLitClasses_eq env vs en h cs
    | crash x => have := coerce_nc env c d h; rw [hc] at this; cases this

/-- Order independence: two orders of the same classes give the same outcome when all the classes that hit agree on the result. -/
theorem tryLitClasses_perm (env : CoerceEnv) (vs en) {d : Py} (h : ∀ kvs, d ≠ .dictNS kvs) (cs1 cs2 : List JClass) (hp : cs1.Perm cs2)
    (agree : ∀ c1 c2 a b, c1 ∈ cs1 → c2 ∈ cs1 → litHit env vs d c1 = some a → litHit env vs d c2 = some b → runLiteral vs en a = runLiteral vs en b) :
    tryLitClasses env vs en d cs1 = tryLitClasses env vs en d cs2 := by
  rw [tryLitClasses_eq env vs en h, tryLitClasses_eq env vs en h]
  cases h1 : cs1.findSome? (litHit env vs d) with
  | none =>
    have : cs2.findSome? (litHit env vs d) = Option.none := by
      rw [List.findSome?_eq_none_iff] at h1 ⊢
      intro c hc; exact h1 c (hp.mem_iff.2 hc)
    rw [this]
  | some a =>
    obtain ⟨c1, hc1, ha⟩ := List.exists_of_findSome?_eq_some h1
    cases h2 : cs2.findSome? (litHit env vs d) with
    | none =>
      rw [List.findSome?_eq_none_iff] at h2
      have := h2 c1 (hp.mem_iff.1 hc1); rw [ha] at this; cases this
    | some b =>
      obtain ⟨c2, hc2, hb⟩ := List.exists_of_findSome?_eq_some h2
      exact agree c1 c2 a b hc1 (hp.mem_iff.2 hc2) ha hb

/-- ... in particular when at most one class hits -/
theorem tryLitClasses_perm_unique (env : CoerceEnv) (vs en) {d : Py} (h : ∀ kvs, d ≠ .dictNS kvs) (cs1 cs2 : List JClass) (hp : cs1.Perm cs2)
    (uniq : ∀ c1 c2, c1 ∈ cs1 → c2 ∈ cs1 → (litHit env vs d c1).isSome → (litHit env vs d c2).isSome → c1 = c2) :
    tryLitClasses env vs en d cs1 = tryLitClasses env vs en d cs2 := by
  apply tryLitClasses_perm env vs en h cs1 cs2 hp
  intro c1 c2 a b h1 h2 ha hb
  have := uniq c1 c2 h1 h2 (by rw [ha]; rfl) (by rw [hb]; rfl)
  subst this
  rw [ha] at hb; cases hb; rfl

end Api
