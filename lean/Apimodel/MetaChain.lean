/-! Metadata of a field (`ObjectField.full_metadata`): the field's own metadata, then the mappings among the arguments of its `Annotated[...]` type from
the *outermost* (last written) to the innermost - `typing` flattens nested `Annotated`, so an alias re-annotated at the point of use comes after the
annotations of the alias.  A `ChainMap` answers with the first of its maps that has the key. -/
namespace Api.Meta

abbrev MetaMap (V : Type) := List (String × V)

def lookupIn {V : Type} (m : MetaMap V) (k : String) : Option V := (m.find? (fun p => p.1 == k)).map (·.2)

/-- `ChainMap(maps...)[k]` -/
def chainLookup {V : Type} : List (MetaMap V) → String → Option V
  | [], _ => none
  | m :: ms, k => match lookupIn m k with
    | some v => some v
    | none => chainLookup ms k

/-- `full_metadata`: `annos` are the mapping arguments of the flattened `Annotated`, in the order written (innermost first) -/
def fullMetadata {V : Type} (fieldMeta : MetaMap V) (annos : List (MetaMap V)) (k : String) : Option V :=
  chainLookup (fieldMeta :: annos.reverse) k

/-- the former reading the seeded changes `C11-13` / `C04-14` produce: innermost first -/
def fullMetadataInnermostFirst {V : Type} (fieldMeta : MetaMap V) (annos : List (MetaMap V)) (k : String) : Option V :=
  chainLookup (fieldMeta :: annos) k

end Api.Meta
