import Apimodel.SchemaSem
/-!
# JSON Schema dialects: `to_json_schema_2019_09` / `to_json_schema_7` on the emitted keywords, and the
draft-07 / 2019-09 validation semantics of the result (`items` array + `additionalItems`)
-/
namespace Api

/-- a schema node in the older dialects -/
inductive S07 where
  | mk (type : List JT) (const : Option Lit) (enum : List Lit) (cons : Constraints)
       (itemsOne : Option (Bool ⊕ S07))          -- `items: <schema | bool>`
       (itemsArr : Option (List S07))             -- `items: [<schema>…]`
       (additionalItems : Option (Bool ⊕ S07))
       (prefixItemsKept : Option (List S07))      -- a stale `prefixItems` keyword (ignored by these dialects)
       (properties : List (String × S07)) (required : List String)
       (additionalProperties : Option (Bool ⊕ S07))
       (patternProperties : List (Pat × S07))
       (anyOf : List S07) (default : Option Py)
  deriving Repr, Inhabited

/-- does the conversion keep the 2020-12 keyword in its output (pinned tree: yes, row 18) -/
structure VQuirks where
  keepsPrefixItems : Bool := true

def selItemsOne (pre : Option (List S07)) (items : Option (Bool ⊕ S07)) : Option (Bool ⊕ S07) :=
  match pre with | some _ => Option.none | Option.none => items
def selAdditional (pre : Option (List S07)) (items : Option (Bool ⊕ S07)) : Option (Bool ⊕ S07) :=
  match pre with | some _ => items | Option.none => Option.none
def selKept (q : VQuirks) (pre : Option (List S07)) : Option (List S07) := if q.keepsPrefixItems then pre else Option.none

mutual
/-- `to_json_schema_2019_09`, applied recursively (it is the `sub_conversion` of every nested schema) -/
def to07 (q : VQuirks) : Sch → S07
  | .mk ty const enum cons items pre props req addl pats anyOf dflt =>
      .mk ty const enum cons (selItemsOne (to07Pre q pre) (to07I q items)) (to07Pre q pre)
        (selAdditional (to07Pre q pre) (to07I q items)) (selKept q (to07Pre q pre))
        (to07P q props) req (to07I q addl) (to07Pat q pats) (to07L q anyOf) dflt
termination_by structural s => s
def to07I (q : VQuirks) : Option (Bool ⊕ Sch) → Option (Bool ⊕ S07)
  | Option.none => Option.none
  | some (.inl b) => some (.inl b)
  | some (.inr s) => some (.inr (to07 q s))
termination_by structural o => o
def to07Pre (q : VQuirks) : Option (List Sch) → Option (List S07)
  | Option.none => Option.none
  | some l => some (to07L q l)
termination_by structural o => o
def to07L (q : VQuirks) : List Sch → List S07
  | [] => []
  | s :: ss => to07 q s :: to07L q ss
termination_by structural l => l
def to07P (q : VQuirks) : List (String × Sch) → List (String × S07)
  | [] => []
  | (k, s) :: ps => (k, to07 q s) :: to07P q ps
termination_by structural l => l
def to07Pat (q : VQuirks) : List (Pat × Sch) → List (Pat × S07)
  | [] => []
  | (p, s) :: ps => (p, to07 q s) :: to07Pat q ps
termination_by structural l => l
end

def arrLen (a : Option (List S07)) : Nat := match a with | Option.none => 0 | some l => l.length

mutual
/-- draft-07 / 2019-09 semantics -/
def v07 : S07 → Py → Bool
  | .mk ty const enum cons one arr addi _ props req addl pats anyOf _, d =>
    (ty.isEmpty || ty.any (typeMatches d)) &&
    (match const with | Option.none => true | some l => jsonEqLit d l) &&
    (enum.isEmpty || enum.any (jsonEqLit d)) &&
    consOk cons d &&
    onListB d (fun xs => v07One one xs && v07Arr arr xs && v07Addi arr addi (xs.drop (arrLen arr))) &&
    onDictB d (fun kvs =>
      v07Props props kvs && req.all (fun r => (lookupKey kvs r).isSome) &&
      v07Pats pats kvs &&
      v07Addl addl (kvs.filter (fun kv => !(propNames07 props).contains kv.1 && !(patList07 pats).any (fun p => p.isMatch kv.1)))) &&
    v07AnyO anyOf d
termination_by structural s => s
def v07One : Option (Bool ⊕ S07) → List Py → Bool
  | Option.none, _ => true
  | some (.inl b), xs => b || xs.isEmpty
  | some (.inr s), xs => xs.all (fun x => v07 s x)
termination_by structural o => o
def v07Arr : Option (List S07) → List Py → Bool
  | Option.none, _ => true
  | some l, xs => v07Zip l xs
termination_by structural o => o
def v07Zip : List S07 → List Py → Bool
  | s :: ss, x :: xs => v07 s x && v07Zip ss xs
  | _, _ => true
termination_by structural ss => ss
/-- `additionalItems` only applies next to an array-form `items` -/
def v07Addi (arr : Option (List S07)) : Option (Bool ⊕ S07) → List Py → Bool
  | Option.none, _ => true
  | some (.inl b), rest => arr.isNone || b || rest.isEmpty
  | some (.inr s), rest => arr.isNone || rest.all (fun x => v07 s x)
termination_by structural a => a
def v07Props : List (String × S07) → List (String × Py) → Bool
  | [], _ => true
  | (k, s) :: ps, kvs => propOk (lookupKey kvs k) (fun x => v07 s x) && v07Props ps kvs
termination_by structural ps => ps
def propNames07 : List (String × S07) → List String
  | [] => []
  | (k, _) :: ps => k :: propNames07 ps
termination_by structural ps => ps
def v07Pats : List (Pat × S07) → List (String × Py) → Bool
  | [], _ => true
  | (p, s) :: ps, kvs => (kvs.filter (fun kv => p.isMatch kv.1)).all (fun kv => v07 s kv.2) && v07Pats ps kvs
termination_by structural ps => ps
def patList07 : List (Pat × S07) → List Pat
  | [] => []
  | (p, _) :: ps => p :: patList07 ps
termination_by structural ps => ps
def v07Addl : Option (Bool ⊕ S07) → List (String × Py) → Bool
  | Option.none, _ => true
  | some (.inl b), rest => b || rest.isEmpty
  | some (.inr s), rest => rest.all (fun kv => v07 s kv.2)
termination_by structural a => a
def v07AnyO : List S07 → Py → Bool
  | [], _ => true
  | s :: ss, d => v07 s d || v07Any ss d
termination_by structural ss => ss
def v07Any : List S07 → Py → Bool
  | [], _ => false
  | s :: ss, d => v07 s d || v07Any ss d
termination_by structural ss => ss
end

/-- keywords of the output that do not belong to the target vocabulary -/
def S07.foreignKeywords : S07 → Bool
  | .mk _ _ _ _ _ _ _ kept _ _ _ _ _ _ => kept.isSome

end Api

namespace Api
def S07.isEmpty : S07 → Bool
  | .mk [] Option.none [] c Option.none Option.none Option.none Option.none [] [] Option.none [] [] Option.none => c == {}
  | _ => false
/-! ## rendering of the older-dialect schema as the `dict` the real conversion returns -/
mutual
def S07.toPy : S07 → Py
  | .mk ty const enum cons one arr addi kept props req addl pats anyOf dflt =>
    .dict (typePy ty ++
      optKey "const" const litToPy ++
      (if enum.isEmpty then [] else [("enum", .list (enum.map litToPy))]) ++
      consKeys cons ++
      bos07 "items" one ++
      arr07 "items" arr ++
      bos07 "additionalItems" addi ++
      arr07 "prefixItems" kept ++
      (if props.isEmpty then [] else [("properties", .dict (props07 props))]) ++
      (if req.isEmpty then [] else [("required", .list (req.map .str))]) ++
      bos07 "additionalProperties" addl ++
      (if pats.isEmpty then [] else [("patternProperties", .dict (pats07 pats))]) ++
      (if anyOf.isEmpty then [] else [("anyOf", .list (list07 anyOf))]) ++
      optKey "default" dflt id)
termination_by structural s => s
def bos07 (k : String) : Option (Bool ⊕ S07) → List (String × Py)
  | Option.none => []
  | some (.inl b) => if b then [] else [(k, .bool false)]
  | some (.inr s) => if s.isEmpty then [] else [(k, s.toPy)]
termination_by structural o => o
def arr07 (k : String) : Option (List S07) → List (String × Py)
  | Option.none => []
  | some l => if l.isEmpty then [] else [(k, .list (list07 l))]
termination_by structural o => o
def list07 : List S07 → List Py
  | [] => []
  | s :: ss => s.toPy :: list07 ss
termination_by structural ss => ss
def props07 : List (String × S07) → List (String × Py)
  | [] => []
  | (k, s) :: ps => (k, s.toPy) :: props07 ps
termination_by structural ps => ps
def pats07 : List (Pat × S07) → List (String × Py)
  | [] => []
  | (p, s) :: ps => (p.source, s.toPy) :: pats07 ps
termination_by structural ps => ps
end
end Api

namespace Api
/-! ## vocabulary: no 2020-12 keyword (`prefixItems`) at any depth of an older-dialect schema -/
mutual
def S07.clean : S07 → Bool
  | .mk _ _ _ _ one arr addi kept props _ addl pats anyOf _ =>
    kept.isNone && cleanI one && cleanO arr && cleanI addi && cleanP props && cleanI addl && cleanPat pats && cleanL anyOf
termination_by structural s => s
def cleanI : Option (Bool ⊕ S07) → Bool
  | Option.none => true
  | some (.inl _) => true
  | some (.inr s) => s.clean
termination_by structural o => o
def cleanO : Option (List S07) → Bool
  | Option.none => true
  | some l => cleanL l
termination_by structural o => o
def cleanL : List S07 → Bool
  | [] => true
  | s :: ss => s.clean && cleanL ss
termination_by structural l => l
def cleanP : List (String × S07) → Bool
  | [] => true
  | (_, s) :: ps => s.clean && cleanP ps
termination_by structural l => l
def cleanPat : List (Pat × S07) → Bool
  | [] => true
  | (_, s) :: ps => s.clean && cleanPat ps
termination_by structural l => l
end
end Api
