import Apimodel.AcceptThm
/-!
# C13: union dispatch shortcuts equal try-each-alternative
-/
namespace Api

def Outcome.val? {α} : Outcome α → Option α | .ok v => some v | _ => Option.none
def Outcome.isCrash {α} : Outcome α → Bool | .crash _ => true | _ => false

/-- specification: the value of the first alternative that accepts -/
def firstOk : List Meth → Py → Option Val
  | [], _ => Option.none
  | m :: ms, d => match (run m d).val? with
    | some v => some v
    | Option.none => firstOk ms d

theorem firstOk_cons_ok {m ms d v} (h : run m d = .ok v) : firstOk (m :: ms) d = some v := by
  simp [firstOk, h, Outcome.val?]
theorem firstOk_cons_rej {m ms d} (h : (run m d).val? = Option.none) : firstOk (m :: ms) d = firstOk ms d := by
  simp [firstOk, h]

/-- `UnionMethod` = try each alternative in order, provided no alternative crashes on the datum -/
theorem C13_sequential : ∀ (ms : List Meth) (d : Py) (err : Option Err),
    (∀ m ∈ ms, (run m d).isCrash = false) → (runUnion ms d err).val? = firstOk ms d
  | [], d, err, _ => by
    rw [runUnion, firstOk]; unfold unionEnd; cases err <;> rfl
  | m :: ms, d, err, h => by
    rw [runUnion]
    have hm := h m (List.mem_cons_self ..)
    cases hr : run m d with
    | ok v => rw [firstOk_cons_ok hr]; rfl
    | crash c => rw [hr] at hm; cases hm
    | invalid e =>
      have : (run m d).val? = Option.none := by rw [hr]; rfl
      rw [firstOk_cons_rej this]
      unfold unionStep
      exact C13_sequential ms d _ (fun m' hm' => h m' (List.mem_cons_of_mem _ hm'))

/-- each alternative of the table accepts only data of its own JSON class -/
def ByTypeSound (tbl : List (JClass × Meth)) : Prop :=
  ∀ p ∈ tbl, ∀ d v, run p.2 d = .ok v → d.jclass? = some p.1

/-- the same, at one datum (all that the dispatch lemmas use) -/
def ByTypeSoundAt (tbl : List (JClass × Meth)) (d : Py) : Prop :=
  ∀ p ∈ tbl, ∀ v, run p.2 d = .ok v → d.jclass? = some p.1

theorem ByTypeSound.at {tbl} (h : ByTypeSound tbl) (d : Py) : ByTypeSoundAt tbl d := fun p hp v hv => h p hp d v hv

theorem firstOk_none_of_class {tbl : List (JClass × Meth)} {d : Py} {c : JClass}
    (hs : ByTypeSoundAt tbl d) (hd : d.jclass? = some c) (hc : ∀ p ∈ tbl, p.1 ≠ c) :
    firstOk (tbl.map (·.2)) d = Option.none := by
  induction tbl with
  | nil => rfl
  | cons p tbl ih =>
    rw [List.map_cons]
    have hrej : (run p.2 d).val? = Option.none := by
      cases hr : run p.2 d with
      | ok v =>
        have := hs p (List.mem_cons_self ..) v hr
        rw [hd] at this
        exact absurd (Option.some.inj this).symm (hc p (List.mem_cons_self ..))
      | invalid e => rfl
      | crash c => rfl
    rw [firstOk_cons_rej hrej]
    exact ih (fun q hq => hs q (List.mem_cons_of_mem _ hq)) (fun q hq => hc q (List.mem_cons_of_mem _ hq))

theorem val_byTypeTail (others d r) : (byTypeTail others d r).val? = r.val? := by
  unfold byTypeTail
  cases r with
  | ok v => rfl
  | crash c => rfl
  | invalid e =>
    simp only
    have := isOk_badType others d
    cases hb : badType others d with
    | ok v => rw [hb] at this; cases this
    | invalid b => rfl
    | crash c => rfl

theorem runByType_val : ∀ (rest all : List (JClass × Meth)) (c : JClass) (d : Py),
    ByTypeSoundAt rest d → (rest.map (·.1)).Nodup → d.jclass? = some c →
    (runByType rest all c d).val? = firstOk (rest.map (·.2)) d
  | [], all, c, d, _, _, _ => by
    rw [runByType]
    have := isOk_badType (all.map (·.1)) d
    cases hb : badType (List.map (fun x => x.fst) all) d with
    | ok v => rw [hb] at this; cases this
    | invalid b => rfl
    | crash c => rfl
  | (c', m) :: rest, all, c, d, hs, hn, hd => by
    rw [runByType]
    rw [List.map_cons, List.nodup_cons] at hn
    have hs' : ByTypeSoundAt rest d := fun q hq => hs q (List.mem_cons_of_mem _ hq)
    by_cases hcc : c' = c
    · subst hcc
      rw [if_pos rfl, val_byTypeTail, List.map_cons]
      cases hr : run m d with
      | ok v => rw [firstOk_cons_ok hr]; rfl
      | invalid e =>
        have : (run m d).val? = Option.none := by rw [hr]; rfl
        rw [firstOk_cons_rej this]
        symm
        apply firstOk_none_of_class hs' hd
        intro p hp heq
        exact hn.1 (heq ▸ List.mem_map_of_mem (f := (·.1)) hp)
      | crash x =>
        have : (run m d).val? = Option.none := by rw [hr]; rfl
        rw [firstOk_cons_rej this]
        symm
        apply firstOk_none_of_class hs' hd
        intro p hp heq
        exact hn.1 (heq ▸ List.mem_map_of_mem (f := (·.1)) hp)
    · rw [if_neg hcc, List.map_cons]
      have hrej : (run m d).val? = Option.none := by
        cases hr : run m d with
        | ok v =>
          have := hs (c', m) (List.mem_cons_self ..) v hr
          rw [hd] at this
          exact absurd (Option.some.inj this).symm hcc
        | invalid e => rfl
        | crash c => rfl
      rw [firstOk_cons_rej hrej]
      exact runByType_val rest all c d hs' hn.2 hd

/-- **C13 (dispatch by JSON type).** When every alternative accepts only data of its own class and the
    classes are pairwise distinct, `UnionByTypeMethod` returns exactly the value of the first accepting
    alternative, and rejects iff all alternatives reject — for every datum of a JSON class. -/
theorem C13_byType_at (tbl : List (JClass × Meth)) (d : Py) (c : JClass)
    (hs : ByTypeSoundAt tbl d) (hn : (tbl.map (·.1)).Nodup) (hd : d.jclass? = some c) :
    (run (.unionByType tbl) d).val? = firstOk (tbl.map (·.2)) d := by
  rw [run]
  simp only [hd]
  exact runByType_val tbl tbl c d hs hn hd

theorem C13_byType (tbl : List (JClass × Meth)) (d : Py) (c : JClass)
    (hs : ByTypeSound tbl) (hn : (tbl.map (·.1)).Nodup) (hd : d.jclass? = some c) :
    (run (.unionByType tbl) d).val? = firstOk (tbl.map (·.2)) d :=
  C13_byType_at tbl d c (hs.at d) hn hd

/-- the by-type shortcut and the sequential method agree (when no alternative crashes) -/
theorem C13_byType_eq_sequential (tbl : List (JClass × Meth)) (d : Py) (c : JClass)
    (hs : ByTypeSound tbl) (hn : (tbl.map (·.1)).Nodup) (hd : d.jclass? = some c)
    (hc : ∀ m ∈ tbl.map (·.2), (run m d).isCrash = false) :
    (run (.unionByType tbl) d).val? = (run (.union (tbl.map (·.2))) d).val? := by
  rw [C13_byType tbl d c hs hn hd, run, C13_sequential _ d Option.none hc]

theorem val?_of_not_isOk {r : Outcome Val} (h : r.isOk = false) : r.val? = Option.none := by
  cases r <;> first | rfl | cases h

theorem val_optionalTail (d r) : (optionalTail d r).val? = r.val? := by
  unfold optionalTail
  cases r with
  | ok v => rfl
  | crash c => rfl
  | invalid e =>
    simp only
    have := isOk_badType [.null] d
    cases hb : badType [.null] d with
    | ok v => rw [hb] at this; cases this
    | invalid b => rfl
    | crash c => rfl

/-- `Optional[T]`: the two-alternative case, `T` first -/
theorem C13_optional (m : Meth) (d : Py)
    (hnull : d.isNull = true → (run m d).val? = some .null ∨ (run m d).val? = Option.none) :
    (run (.optional m) d).val? = firstOk [m, .none] d := by
  rw [run]
  by_cases hd : d.isNull = true
  · rw [if_pos hd]
    have hnn : (run .none d).val? = some .null := by
      cases d <;> first | (rw [run]; rfl) | cases hd
    cases hnull hd with
    | inl h => simp only [firstOk, h]; rfl
    | inr h => simp only [firstOk, h, hnn]; rfl
  · rw [if_neg hd, val_optionalTail]
    have hnone : (run .none d).val? = Option.none := by
      apply val?_of_not_isOk
      rw [run, isOk_runNone]; simpa using hd
    cases hr : (run m d).val? with
    | some v => simp only [firstOk, hr]
    | none => simp only [firstOk, hr, hnone]

/-! ### which compiled alternatives are by-type sound -/

/-- not `float` behind NewTypes / annotations (a `float` alternative accepts `int` data: row 3) -/
def Ty.noFloat : Ty → Bool
  | .float => false
  | .newtype _ t => t.noFloat
  | .ann _ t => t.noFloat
  | _ => true

/-- the specification already says it: conforming data have the JSON class of the type's factory -/
theorem conforms_class (ap fbod : Bool) :
    ∀ cs t d, conforms ap fbod cs t d = true → ∀ c, t.factoryCls = some c → t.noFloat = true →
      d.jclass? = some c := by
  have key := conforms.mutual_induct
    (motive_1 := fun cs t d => conforms ap fbod cs t d = true → ∀ c, t.factoryCls = some c →
        t.noFloat = true → d.jclass? = some c)
    (motive_2 := fun _ _ => True) (motive_3 := fun _ _ _ => True) (motive_4 := fun _ _ => True)
  refine (key ?_ ?_ ?_ ?_ ?_ ?_ ?_ ?_ ?_ ?_ ?_ ?_ ?_ ?_ ?_ ?_ ?_ ?_ ?_ ?_ ?_ ?_ ?_ ?_).1
  · intro _ d h c hc _; rw [Ty.factoryCls] at hc; cases hc; rw [conforms] at h
    cases d <;> first | rfl | cases h
  · intro _ d h c hc _; rw [Ty.factoryCls] at hc; cases hc; rw [conforms] at h
    cases d <;> first | rfl | cases h
  · intro _ d h c hc _; rw [Ty.factoryCls] at hc; cases hc; rw [conforms] at h
    cases d <;> first | rfl | cases h
  · intro _ d _ c _ hf; cases hf
  · intro _ d h c hc _; rw [Ty.factoryCls] at hc; cases hc; rw [conforms] at h
    cases d <;> first | rfl | cases h
  · intro _ d _ c hc _; cases hc
  · intro _ t d _ h c hc _; rw [Ty.factoryCls] at hc; cases hc; rw [conforms] at h
    cases d <;> first | rfl | cases h
  · intro _ t d _ h c hc _; rw [Ty.factoryCls] at hc; cases hc; rw [conforms] at h
    cases d <;> first | rfl | cases h
  · intro _ t d _ h c hc _; rw [Ty.factoryCls] at hc; cases hc; rw [conforms] at h
    cases d <;> first | rfl | cases h
  · intro _ t d _ h c hc _; rw [Ty.factoryCls] at hc; cases hc; rw [conforms] at h
    cases d <;> first | rfl | cases h
  · intro _ ts d _ h c hc _; rw [Ty.factoryCls] at hc; cases hc; rw [conforms] at h
    cases d <;> first | rfl | cases h
  · intro _ k v d _ _ h c hc _; rw [Ty.factoryCls] at hc; cases hc; rw [conforms] at h
    cases d <;> first | rfl | cases h
  · intro _ ts d _ _ c hc _; cases hc
  · intro _ vs d _ c hc _; cases hc
  · intro _ cls ms d _ c hc _; cases hc
  · intro cs n t d ih h c hc hf
    rw [conforms] at h; rw [Ty.factoryCls] at hc; rw [Ty.noFloat] at hf; exact ih h c hc hf
  · intro cs c' t d ih h c hc hf
    rw [conforms] at h; rw [Ty.factoryCls] at hc; rw [Ty.noFloat] at hf; exact ih h c hc hf
  · intro _ ci fs d _ h c hc _; rw [Ty.factoryCls] at hc; cases hc; rw [conforms] at h
    cases d <;> first | rfl | cases h
  all_goals intros; trivial

/-- every compiled alternative in the C01 scope other than `float` is by-type sound -/
theorem compile_byTypeSound (o : DOpts) (ho : OptsOk o) (cs : Constraints) (t : Ty) (c : JClass)
    (ht : t.acc = true) (hc : t.factoryCls = some c) (hf : t.noFloat = true)
    (d : Py) (hd : d.wf = true) (v : Val) (h : run (compile o cs t) d = .ok v) :
    d.jclass? = some c := by
  have hacc := (accepts_iff_conforms o ho).1 cs t ht d hd
  rw [h] at hacc
  exact conforms_class _ _ cs t d hacc.symm c hc hf

/-- the hypothesis is needed: `float` accepts an `int` datum, the table is keyed by exact class (row 3) -/
theorem C13_byType_unsound_float :
    (run (.unionByType [(.float, .float false), (.str, .str)]) (.int 1)).val?.isSome = false
    ∧ (firstOk [.float false, .str] (.int 1)).isSome = true := by decide +kernel

end Api
