import Apimodel.Generated.TryShapes
/-! Two `try` blocks whose extent decides a property (rows 77 and 80).

* C13: in `UnionByTypeMethod.deserialize` the `try` whose `except KeyError` means "no method for the class of the datum" contains the table lookup *only*:
  a `KeyError` raised while the selected alternative deserializes (a converter or validator of the user) is not mistaken for a missing class - the model's
  `byTypeTail` has no such confusion to begin with, exceptions of user code being outside it.
* C14 / C03: in `LiteralMethod.deserialize` the loop over the classes of the literal values moves on after a class the datum cannot be coerced to
  (`ValidationError`), after a coerced value that is no literal (`KeyError`) and after an unhashable result of a custom coercer (`TypeError`) - the
  hypothesis of `tryLitClasses` (model) and of `tryLitClasses_perm` (order independence). -/
namespace Api

theorem try_shapes :
    Generated.try_byTypeLookup = "method: DeserializationMethod = self.method_by_cls[type(data)]" ∧ Generated.try_byTypeLookupHandlers = ["KeyError"] ∧
    Generated.try_litLoopCatches = "(KeyError, TypeError, ValidationError) -> pass" := by
  refine ⟨?_, ?_, ?_⟩ <;> decide +kernel

end Api
