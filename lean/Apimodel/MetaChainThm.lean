import Apimodel.MetaChain
import Apimodel.Generated.MetaSrc
/-! C11 / C04 (one external name, one omission rule per field): which annotation decides.

* `field_metadata_wins`: a key given in `field(metadata=...)` is read there, whatever the annotations say;
* `outermost_wins`: otherwise the *last written* annotation that has the key decides (an alias re-annotated at the point of use overrides the alias
  carried by the annotated type);
* `chain_source`: the working tree builds the chain in that order. -/
namespace Api.Meta

theorem chainLookup_append {V : Type} (ms ns : List (MetaMap V)) (k : String) :
    chainLookup (ms ++ ns) k = match chainLookup ms k with | some v => some v | none => chainLookup ns k := by
  induction ms with
  | nil => rfl
  | cons m ms ih =>
    simp only [List.cons_append, chainLookup]
    cases lookupIn m k with
    | some v => rfl
    | none => exact ih

theorem field_metadata_wins {V : Type} (fieldMeta : MetaMap V) (annos : List (MetaMap V)) (k : String) (v : V)
    (h : lookupIn fieldMeta k = some v) : fullMetadata fieldMeta annos k = some v := by
  simp [fullMetadata, chainLookup, h]

/-- the outermost annotation that has the key decides -/
theorem outermost_wins {V : Type} (fieldMeta : MetaMap V) (inner : List (MetaMap V)) (outer : MetaMap V) (k : String) (v : V)
    (hf : lookupIn fieldMeta k = none) (ho : lookupIn outer k = some v) :
    fullMetadata fieldMeta (inner ++ [outer]) k = some v := by
  simp [fullMetadata, chainLookup, hf, List.reverse_append, ho]

/-- an annotation that does not have the key is transparent -/
theorem transparent_annotation {V : Type} (fieldMeta : MetaMap V) (inner : List (MetaMap V)) (outer : MetaMap V) (k : String)
    (ho : lookupIn outer k = none) :
    fullMetadata fieldMeta (inner ++ [outer]) k = fullMetadata fieldMeta inner k := by
  simp [fullMetadata, chainLookup, List.reverse_append, ho]

/-- the two readings differ exactly when two annotations give the key: `UserId = Annotated[int, alias("id")]`, `sender: Annotated[UserId, alias("sender_id")]` -/
example : fullMetadata ([] : MetaMap String) [[("alias", "id")], [("alias", "sender_id")]] "alias" = some "sender_id" ∧
    fullMetadataInnermostFirst ([] : MetaMap String) [[("alias", "id")], [("alias", "sender_id")]] "alias" = some "id" := by decide

/-- Source tie: the chain of the working tree is the field's metadata followed by the mapping arguments in reversed order. -/
theorem chain_source :
    Generated.meta_chainArgs = ["cast(MutableMapping, self.metadata)", "*(cast(MutableMapping, arg) for arg in reversed(get_args(self.type)[1:]) if isinstance(arg, Mapping))"] ∧
    Generated.meta_plainCase = "if not is_annotated(self.type): return self.metadata" := by
  refine ⟨?_, ?_⟩ <;> decide +kernel

end Api.Meta
