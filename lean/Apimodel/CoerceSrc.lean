import Apimodel.Deser
/-!
# `coercion.coerce` as the translator reads it

`tools/extract.py` turns the `if / elif / else` chain of `coerce(cls, data)` into a list of (guard, action) tokens
(`Generated.coerceChain`), recognising each test and each branch body against the exact source text it knows; anything
else becomes an `unknown` token.  `interpChain` is the meaning of such a list.  `CoerceSrcThm` proves that the chain read
from the current source means the hand-written model `coerce`, for every class and every datum: a reordered, dropped,
added or rewritten branch breaks that proof obligation.
-/
namespace Api

inductive CGuard where
  | clsIs (c : JClass)                    -- `cls is C`
  | dataIsCls                             -- `isinstance(data, cls)`
  | clsIsAndDataIs (c k : JClass)         -- `cls is C and isinstance(data, K)`
  | clsIn (cs : List JClass)              -- `cls in (C1, C2)`
  | otherwise                             -- `else`
  | unknown (src : String)
  deriving Repr

inductive CAction where
  | noneOrIn (vals : List String)         -- `if data is None or (isinstance(data, str) and data in STR_NONE_VALUES): return None; else: raise bad_type`
  | returnData                            -- `return data`
  | boolBranch (lowered : Bool)           -- str: `STR_TO_BOOL[data.lower()]` (KeyError -> bad_type); int: `bool(data)`; else bad_type
  | badType                               -- `raise bad_type(data, cls)`
  | construct (excs : List String)        -- `try: return cls(data)  except (excs): raise bad_type(data, cls)`
  | strBranch                             -- `if isinstance(data, (int, float)) and not isinstance(data, bool): return str(data); else: raise bad_type`
  | unknown (src : String)
  deriving Repr

def CGuard.holds (c : JClass) (d : Py) : CGuard → Bool
  | .clsIs c' => c == c'
  | .dataIsCls => d.isInstance c
  | .clsIsAndDataIs c' k => c == c' && d.isInstance k
  | .clsIn cs => cs.contains c
  | .otherwise => true
  | .unknown _ => true

/-- `cls(data)` for `cls` in `int`, `float`: the value, or the name of the exception raised -/
def pyCall (env : CoerceEnv) (c : JClass) (d : Py) : Except String Py :=
  match c, d with
  | .int, .int _ => .ok d
  | .int, .bool b => .ok (.int (if b then 1 else 0))
  | .int, .float (.fin q) => .ok (.int (Int.tdiv q.num q.den))
  | .int, .float .nan => .error "ValueError"
  | .int, .float _ => .error "OverflowError"
  | .int, .str s => match assoc? s env.intOf with | some i => .ok (.int i) | Option.none => .error "ValueError"
  | .float, .float _ => .ok d
  | .float, .bool b => .ok (.float (.fin (if b then 1 else 0)))
  | .float, .int i => match intToFlt i with | some f => .ok (.float f) | Option.none => .error "OverflowError"
  | .float, .str s => match assoc? s env.floatOf with | some f => .ok (.float f) | Option.none => .error "ValueError"
  | _, _ => .error "TypeError"

def CAction.exec (env : CoerceEnv) (c : JClass) (d : Py) : CAction → Outcome Py
  | .noneOrIn vals =>
      match d with
      | .null => .ok .null
      | .str s => if vals.contains s then .ok .null else badTypeP c d
      | _ => badTypeP c d
  | .returnData => .ok d
  | .boolBranch lowered =>
      match d with
      | .str s => match assoc? (if lowered then s.toLower else s) env.boolWords with
          | some b => .ok (.bool b)
          | Option.none => badTypeP c d
      | .int i => .ok (.bool (i != 0))
      | .bool b => .ok (.bool b)
      | _ => badTypeP c d
  | .badType => badTypeP c d
  | .construct excs =>
      match pyCall env c d with
      | .ok v => .ok v
      | .error e => if excs.contains e then badTypeP c d else .crash e
  | .strBranch =>
      match d with
      | .int i => .ok (.str (toString i))
      | .float f => .ok (.str (reprFlt env f))
      | _ => badTypeP c d
  | .unknown src => .crash ("untranslated branch: " ++ src)

/-- first branch whose guard holds -/
def interpChain (chain : List (CGuard × CAction)) (env : CoerceEnv) (c : JClass) (d : Py) : Outcome Py :=
  match chain with
  | [] => .crash "no branch"       -- the function would return `None`
  | (g, a) :: rest => if g.holds c d then a.exec env c d else interpChain rest env c d

end Api
