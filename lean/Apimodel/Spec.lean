import Apimodel.Deser
/-!
# Specification of acceptance (C01): `conforms ap fbod cs T d`

Written rule by rule from the documentation; it knows nothing about method trees, `no_copy`,
constructor strategies or union dispatch. `cs` are the constraints inherited from enclosing
`Annotated[..., schema(...)]`.
-/
namespace Api

def Py.isBool : Py → Bool | .bool _ => true | _ => false

def intOk (cs : Constraints) : Py → Bool
  | .int i => (cs.numErrors (.int i)).isEmpty
  | _ => false

def intAsFloatOk (cs : Constraints) (i : Int) : Bool :=
  match intToFlt i with
  | some f => (cs.numErrors (.flt f)).isEmpty
  | Option.none => false

/-- a `float`, or an `int` that fits a double (`bool` is not a number) -/
def floatOk (cs : Constraints) : Py → Bool
  | .float f => (cs.numErrors (.flt f)).isEmpty
  | .int i => intAsFloatOk cs i
  | _ => false

def strOk (cs : Constraints) : Py → Bool
  | .str s => (cs.strErrors s).isEmpty
  | _ => false

/-- `Any` accepts everything; constraints apply to data of the class they concern -/
def anyOk (cs : Constraints) : Py → Bool
  | .int i => (cs.numErrors (.int i)).isEmpty
  | .float f => (cs.numErrors (.flt f)).isEmpty
  | .str s => (cs.strErrors s).isEmpty
  | .list xs => cs.listErrors xs == some []
  | .dict kvs => (cs.dictErrors kvs.length).isEmpty
  | .dictNS kvs => (cs.dictErrors kvs.length).isEmpty
  | _ => true

/-- an array whose own constraints hold and whose elements all satisfy `p` -/
def listOk (cs : Constraints) (d : Py) (p : Py → Bool) : Bool :=
  match d with
  | .list xs => cs.listErrors xs == some [] && xs.all p
  | _ => false

def tupleOk (cs : Constraints) (d : Py) (n : Nat) (p : List Py → Bool) : Bool :=
  match d with
  | .list xs => xs.length == n && cs.listErrors xs == some [] && p xs
  | _ => false

def dictOk (cs : Constraints) (d : Py) (p : List (String × Py) → Bool) : Bool :=
  match d with
  | .dict kvs => (cs.dictErrors kvs.length).isEmpty && p kvs
  | _ => false

/-- a declared field: if present it must conform — unless it is optional and falls back on its
    default —, if absent it must not be required -/
def fieldOk (fbod : Bool) (f : FieldInfo) (o : Option Py) (p : Py → Bool) : Bool :=
  match o with
  | some x => p x || (!f.required && (f.fbod || fbod))
  | Option.none => !f.required

/-- `dependent_required`: no field is absent while a field that requires it is present -/
def depOk (infos : List FieldInfo) (kvs : List (String × Py)) : Bool := infos.all (fun f => !depViolated f kvs)

def infosOf (fs : List (FieldInfo × Ty)) : List FieldInfo := fs.map (·.1)

theorem depOk_of_noDeps {infos : List FieldInfo} (h : ∀ f ∈ infos, f.requiredBy = []) (kvs : List (String × Py)) :
    depOk infos kvs = true := by
  unfold depOk
  exact List.all_eq_true.2 (fun f hf => by rw [depViolated_false (h f hf)]; rfl)


/-- no key outside the declared aliases, unless additional properties are allowed -/
def noUnexpected (ap : Bool) (aliases : List String) (kvs : List (String × Py)) : Bool :=
  ap || kvs.all (fun kv => aliases.contains kv.1)

mutual
def conforms (ap fbod : Bool) : Constraints → Ty → Py → Bool
  | _, .null, d => d.isNull
  | _, .bool, d => d.isBool
  | cs, .int, d => intOk cs d
  | cs, .float, d => floatOk cs d
  | cs, .str, d => strOk cs d
  | cs, .any, d => anyOk cs d
  | cs, .list t, d => listOk cs d (fun x => conforms ap fbod {} t x)
  | cs, .vtuple t, d => listOk cs d (fun x => conforms ap fbod {} t x)
  | cs, .set t, d => listOk cs d (fun x => conforms ap fbod {} t x)
  | cs, .frozenset t, d => listOk cs d (fun x => conforms ap fbod {} t x)
  | cs, .tuple ts, d => tupleOk cs d ts.length (fun xs => conformsZip ap fbod ts xs)
  | cs, .mapping k v, d => dictOk cs d (fun kvs =>
      kvs.all (fun kv => conforms ap fbod {} k (.str kv.1) && conforms ap fbod {} v kv.2))
  | cs, .union ts, d => conformsAny ap fbod cs ts d
  | _, .literal vs, d => d.hashable && vs.any (litMatches d)
  | _, .enum _ ms, d => d.hashable && ms.any (fun m => litMatches d m.2)
  | cs, .newtype _ t, d => conforms ap fbod cs t d
  | cs, .ann c t, d => conforms ap fbod (c.merge cs) t d
  | cs, .obj _ fs, d => dictOk cs d (fun kvs => conformsF ap fbod fs kvs && noUnexpected ap (aliasesOf fs) kvs && depOk (infosOf fs) kvs)
termination_by structural _ t => t
/-- element-wise conformance of a fixed-length tuple -/
def conformsZip (ap fbod : Bool) : List Ty → List Py → Bool
  | t :: ts, x :: xs => conforms ap fbod {} t x && conformsZip ap fbod ts xs
  | _, _ => true
termination_by structural ts => ts
/-- some alternative accepts -/
def conformsAny (ap fbod : Bool) : Constraints → List Ty → Py → Bool
  | _, [], _ => false
  | cs, t :: ts, d => conforms ap fbod cs t d || conformsAny ap fbod cs ts d
termination_by structural _ ts => ts
def conformsF (ap fbod : Bool) : List (FieldInfo × Ty) → List (String × Py) → Bool
  | [], _ => true
  | (f, t) :: fs, kvs => fieldOk fbod f (lookupKey kvs f.alias) (fun x => conforms ap fbod {} t x) && conformsF ap fbod fs kvs
termination_by structural fs => fs
def aliasesOf : List (FieldInfo × Ty) → List String
  | [] => []
  | (f, _) :: fs => f.alias :: aliasesOf fs
termination_by structural fs => fs
end

def Outcome.isOk {α} : Outcome α → Bool | .ok _ => true | _ => false

end Api
