import Apimodel.PyEq
/-! # `constraints_validators` / `validate_constraints`: failing rules per JSON class -/
namespace Api

def optRule {α} (o : Option α) (ok : α → Bool) (r : α → Rule) : List Rule :=
  match o with
  | none => []
  | some a => if ok a then [] else [r a]

/-- number constraints (they apply to `float` and, by the `result[int] = result[float]` copy, to `int`) -/
def Constraints.numErrors (c : Constraints) (x : Num) : List Rule :=
  optRule c.min (fun m => m.le x) .minimum ++
  optRule c.max (fun m => x.le m) .maximum ++
  optRule c.excMin (fun m => m.lt x) .exclusiveMinimum ++
  optRule c.excMax (fun m => x.lt m) .exclusiveMaximum ++
  optRule c.multOf (fun m => x.isMultipleOf m) .multipleOf

def Constraints.hasNum (c : Constraints) : Bool :=
  c.min.isSome || c.max.isSome || c.excMin.isSome || c.excMax.isSome || c.multOf.isSome

def Constraints.strErrors (c : Constraints) (s : String) : List Rule :=
  optRule c.minLen (fun n => n ≤ s.length) .minLength ++
  optRule c.maxLen (fun n => s.length ≤ n) .maxLength ++
  optRule c.pattern (fun p => p.isMatch s) (fun p => .pattern p.source)

def Constraints.hasStr (c : Constraints) : Bool :=
  c.minLen.isSome || c.maxLen.isSome || c.pattern.isSome

/-- `to_hashable` images -/
inductive HK where
  | null | num (n : Num) | str (s : String) | tup (xs : List HK) | other (c : String)
  deriving Repr, Inhabited

mutual
def HK.eq : HK → HK → Bool
  | .null, .null => true
  | .num a, .num b => a.eq b
  | .str a, .str b => a == b
  | .tup a, .tup b => HK.eqL a b
  | .other a, .other b => a == b
  | _, _ => false
termination_by structural a => a
def HK.eqL : List HK → List HK → Bool
  | [], [] => true
  | a :: as, b :: bs => a.eq b && HK.eqL as bs
  | _, _ => false
termination_by structural as => as
end

/-- insertion sort of string keys (`sorted(data)`) -/
def insertStr (s : String) : List String → List String
  | [] => [s]
  | x :: xs => if s < x then s :: x :: xs else x :: insertStr s xs
def sortStrs (l : List String) : List String := l.foldr insertStr []

mutual
/-- `to_hashable`; `none` = `TypeError` (unsortable keys) -/
def toHashable : Py → Option HK
  | .null => some .null
  | .bool b => some (.num (.int (if b then 1 else 0)))
  | .int i => some (.num (.int i))
  | .float f => some (.num (.flt f))
  | .str s => some (.str s)
  | .list xs => (toHashableL xs).map .tup
  | .dict kvs =>
      -- `frozenset((key, to_hashable(value)) ...)`: an object is not an array, and the order of its keys does not count
      -- (canonical form: the pairs sorted by key, behind a marker that no array image carries)
      (toHashableK kvs).map (fun vs =>
        let ks := sortStrs (kvs.map (·.1))
        .tup (.other "frozenset" :: ks.filterMap (fun k => (vs.find? (·.1 == k)).map (fun p => .tup [.str k, p.2]))))
  | .dictNS _ => some (.other "frozenset of pairs with non-string keys (not modelled)")
  | .other c => some (.other c)
termination_by structural d => d
def toHashableL : List Py → Option (List HK)
  | [] => some []
  | x :: xs => match toHashable x, toHashableL xs with
    | some h, some hs => some (h :: hs)
    | _, _ => Option.none
termination_by structural xs => xs
def toHashableK : List (String × Py) → Option (List (String × HK))
  | [] => some []
  | (k, v) :: kvs => match toHashable v, toHashableK kvs with
    | some h, some hs => some ((k, h) :: hs)
    | _, _ => Option.none
termination_by structural kvs => kvs
end

def distinctCount : List HK → Nat
  | [] => 0
  | h :: hs => (if hs.any (fun g => g.eq h) then 0 else 1) + distinctCount hs

/-- list constraints; `none` = crash (`TypeError`) while computing `uniqueItems` -/
def Constraints.listErrors (c : Constraints) (xs : List Py) : Option (List Rule) :=
  let a := optRule c.minItems (fun n => n ≤ xs.length) .minItems ++
           optRule c.maxItems (fun n => xs.length ≤ n) .maxItems
  if c.unique then
    match toHashableL xs with
    | some hs => some (a ++ (if distinctCount hs == xs.length then [] else [.uniqueItems]))
    | Option.none => Option.none
  else some a

def Constraints.dictErrors (c : Constraints) (n : Nat) : List Rule :=
  optRule c.minProps (fun m => m ≤ n) .minProperties ++
  optRule c.maxProps (fun m => n ≤ m) .maxProperties

def Constraints.hasDict (c : Constraints) : Bool := c.minProps.isSome || c.maxProps.isSome

def minOpt {α} (le : α → α → Bool) (a b : Option α) (pickFirstIfLe : Bool) : Option α :=
  match a, b with
  | none, b => b
  | a, none => a
  | some x, some y => if le x y == pickFirstIfLe then some x else some y

/-- `merge_constraints`: the most restrictive of both (patterns cannot be merged: left kept) -/
def Constraints.merge (a b : Constraints) : Constraints where
  min := minOpt Num.le a.min b.min false
  max := minOpt Num.le a.max b.max true
  excMin := minOpt Num.le a.excMin b.excMin false
  excMax := minOpt Num.le a.excMax b.excMax true
  multOf := match a.multOf, b.multOf with
    | none, m => m | m, none => m | some x, some _ => some x
  minLen := minOpt (fun x y => decide (x ≤ y)) a.minLen b.minLen false
  maxLen := minOpt (fun x y => decide (x ≤ y)) a.maxLen b.maxLen true
  pattern := match a.pattern with | some p => some p | none => b.pattern
  minItems := minOpt (fun x y => decide (x ≤ y)) a.minItems b.minItems false
  maxItems := minOpt (fun x y => decide (x ≤ y)) a.maxItems b.maxItems true
  unique := a.unique || b.unique
  minProps := minOpt (fun x y => decide (x ≤ y)) a.minProps b.minProps false
  maxProps := minOpt (fun x y => decide (x ≤ y)) a.maxProps b.maxProps true

end Api
