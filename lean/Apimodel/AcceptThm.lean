import Apimodel.Spec
import Apimodel.NoCopyThm
/-!
# C01 (acceptance): the compiled method accepts exactly the conforming data
-/
namespace Api

@[simp] theorem isOk_ok {α} (a : α) : (Outcome.ok a).isOk = true := rfl
@[simp] theorem isOk_invalid {α} (e : Err) : (Outcome.invalid e : Outcome α).isOk = false := rfl
@[simp] theorem isOk_crash {α} (c : String) : (Outcome.crash c : Outcome α).isOk = false := rfl

theorem isOk_badType (exps d) : (badType exps d).isOk = false := by
  unfold badType; rfl

theorem isOk_constrained (rs v) : (constrained rs v).isOk = rs.isEmpty := by
  unfold constrained; cases rs <;> rfl

theorem isOk_runNone (d) : (runNone d).isOk = d.isNull := by
  cases d <;> simp [runNone, Py.isNull, isOk_badType]
theorem isOk_runBool (d) : (runBool d).isOk = d.isBool := by
  cases d <;> simp [runBool, Py.isBool, isOk_badType]
theorem isOk_runInt (c d) : (runInt c d).isOk = intOk c d := by
  cases d <;> simp [runInt, intOk, isOk_badType, isOk_constrained]
theorem isOk_runStr (c d) : (runStr c d).isOk = strOk c d := by
  cases d <;> simp [runStr, strOk, isOk_badType, isOk_constrained]
/-- repaired `FloatMethod` (`bool` rejected) -/
theorem isOk_intAsFloat (c i) : (intAsFloat c i).isOk = intAsFloatOk c i := by
  unfold intAsFloat intAsFloatOk
  generalize intToFlt i = r
  cases r with
  | none => rfl
  | some f => exact isOk_constrained _ _

theorem isOk_runFloat (c d) : (runFloat false c d).isOk = floatOk c d := by
  cases d <;> simp only [runFloat, floatOk, isOk_badType, isOk_constrained, isOk_intAsFloat,
    Bool.false_eq_true, if_false]
theorem isOk_runAny (c d) : (runAny c d).isOk = anyOk c d := by
  cases d <;> simp [runAny, anyOk, isOk_constrained]
  case list xs => cases h : c.listErrors xs <;> simp [isOk_constrained]

/-- a loop ends cleanly iff every element was accepted -/
theorem collect_clean (f : Py → Outcome Val) : ∀ xs i,
    ((collect f i xs).crash.isNone && (collect f i xs).errs.isEmpty) = xs.all (fun x => (f x).isOk) := by
  intro xs; induction xs with
  | nil => intro i; rfl
  | cons x xs ih =>
    intro i
    simp only [collect, List.all_cons, ← ih (i+1)]
    cases hr : f x with
    | ok v => simp [stepAcc]
    | crash c => simp [stepAcc]
    | invalid e =>
      simp only [stepAcc, isOk_invalid, Bool.false_and]
      cases hc : (collect f (i + 1) xs).crash <;> simp
      · cases hs : setChild (Key.idx i) e (collect f (i + 1) xs).errs with
        | nil => exact absurd hs (setChild_ne_nil _ _ _)
        | cons a b => simp

theorem isOk_finish (own acc) (mk : List Val → Outcome Val) (hmk : ∀ vs, (mk vs).isOk = true) :
    (finish own acc mk).isOk = (own == some [] && (acc.crash.isNone && acc.errs.isEmpty)) := by
  unfold finish
  cases hc : acc.crash with
  | some c => simp
  | none =>
    cases own with
    | none => simp
    | some rs =>
      cases rs with
      | cons r rs => simp
      | nil =>
        cases he : acc.errs with
        | nil => simp [hmk]
        | cons e es => simp

/-- acceptance of both list methods -/
theorem isOk_listLike {c m d} (mk : Py → List Val → Outcome Val) (hmk : ∀ d vs, (mk d vs).isOk = true) :
    (onList d (fun xs => finish (c.listErrors xs) (collect (fun x => run m x) 0 xs) (mk d))).isOk
      = listOk c d (fun x => (run m x).isOk) := by
  cases d <;> simp [onList, listOk, isOk_badType]
  case list xs => rw [isOk_finish _ _ _ (hmk _), collect_clean]

theorem isOk_listCheckOnly (c m d) : (run (.listCheckOnly c m) d).isOk = listOk c d (fun x => (run m x).isOk) := by
  rw [run]; exact isOk_listLike (fun d _ => .ok (asVal d)) (fun _ _ => rfl)
theorem isOk_list (c m d) : (run (.list c m) d).isOk = listOk c d (fun x => (run m x).isOk) := by
  rw [run]; exact isOk_listLike (fun _ vs => .ok (.list vs)) (fun _ _ => rfl)
theorem isOk_listSel (o c m d) : (run (listSel o c m) d).isOk = listOk c d (fun x => (run m x).isOk) := by
  unfold listSel; split
  · exact isOk_listCheckOnly c m d
  · exact isOk_list c m d

theorem listOk_congr {c d} {p q : Py → Bool} (h : ∀ x, p x = q x) : listOk c d p = listOk c d q := by
  have : p = q := funext h
  rw [this]

theorem isOk_mapVal_tuple (r : Outcome Val) : (mapVal r listToTuple).isOk = r.isOk := by
  cases r with
  | ok v => cases v <;> rfl
  | invalid e => rfl
  | crash c => rfl

/-! ### tuples -/
def zipOkM : List Meth → List Py → Bool
  | m :: ms, x :: xs => (run m x).isOk && zipOkM ms xs
  | _, _ => true

theorem runTuple_clean : ∀ ms xs i,
    ((runTuple ms i xs).crash.isNone && (runTuple ms i xs).errs.isEmpty) = zipOkM ms xs := by
  intro ms; induction ms with
  | nil => intro xs i; simp [zipOkM]
  | cons m ms ih =>
    intro xs i
    cases xs with
    | nil => simp [zipOkM]
    | cons x xs =>
      simp only [runTuple_cons_cons, zipOkM, ← ih xs (i+1)]
      cases hr : run m x with
      | ok v => simp [stepAcc]
      | crash c => simp [stepAcc]
      | invalid e =>
        simp only [stepAcc, isOk_invalid, Bool.false_and]
        cases hc : (runTuple ms (i + 1) xs).crash <;> simp
        cases hs : setChild (Key.idx i) e (runTuple ms (i + 1) xs).errs with
        | nil => exact absurd hs (setChild_ne_nil _ _ _)
        | cons a b => simp

theorem isOk_tuple (c ms d) :
    (run (.tuple false c ms) d).isOk = tupleOk c d ms.length (fun xs => zipOkM ms xs) := by
  rw [run]
  cases d <;> simp [onList, tupleOk, isOk_badType]
  case list xs =>
    unfold tupleBody
    by_cases h1 : xs.length < ms.length
    · simp [h1]; omega
    · by_cases h2 : xs.length > ms.length
      · simp [h1, h2]; omega
      · have : xs.length = ms.length := by omega
        simp only [h1, h2, if_false, Bool.false_eq_true]
        rw [isOk_finish _ _ _ (fun _ => rfl), runTuple_clean]
        simp [this]

/-! ### mappings -/
theorem collectItems_clean (kf : Bool) (fk fv : Py → Outcome Val) : ∀ kvs,
    ((collectItems kf fk fv kvs).crash.isNone && (collectItems kf fk fv kvs).errs.isEmpty)
      = kvs.all (fun kv => (fk (.str kv.1)).isOk && (fv kv.2).isOk) := by
  intro kvs; induction kvs with
  | nil => rfl
  | cons kv kvs ih =>
    obtain ⟨k, v⟩ := kv
    simp only [collectItems, List.all_cons, ← ih]
    have hne : ∀ e cs, (setChild (Key.name k) e cs).isEmpty = false := by
      intro e cs
      cases hs : setChild (Key.name k) e cs with
      | nil => exact absurd hs (setChild_ne_nil _ _ _)
      | cons a b => rfl
    unfold stepItem
    cases kf <;> cases fk (.str k) <;> cases fv v <;> simp [hne]

theorem isOk_finishMap (own acc v) :
    (finishMap own acc v).isOk = (own.isEmpty && (acc.crash.isNone && acc.errs.isEmpty)) := by
  unfold finishMap
  cases hc : acc.crash with
  | some c => simp
  | none =>
    cases own with
    | cons r rs => simp
    | nil =>
      cases he : acc.errs with
      | nil => simp
      | cons e es => simp

theorem isOk_onDict_badcases {d : Py} {k} (h : ∀ kvs, d ≠ .dict kvs) : (onDict d k).isOk = false := by
  cases d <;> simp [onDict, isOk_badType]
  case dict kvs => exact absurd rfl (h kvs)

theorem isOk_mappingCheckOnly (c km vm d) : (run (.mappingCheckOnly c km vm) d).isOk
    = dictOk c d (fun kvs => kvs.all (fun kv => (run km (.str kv.1)).isOk && (run vm kv.2).isOk)) := by
  rw [run]
  cases d <;> simp [onDict, dictOk, isOk_badType]
  case dict kvs => rw [isOk_finishMap, collectItems_clean]

theorem isOk_mapping (c km vm d) : (run (.mapping c km vm) d).isOk
    = dictOk c d (fun kvs => kvs.all (fun kv => (run km (.str kv.1)).isOk && (run vm kv.2).isOk)) := by
  rw [run]
  cases d <;> simp [onDict, dictOk, isOk_badType]
  case dict kvs => rw [isOk_finishMap, collectItems_clean]

theorem isOk_mappingSel (o c km vm d) : (run (mappingSel o c km vm) d).isOk
    = dictOk c d (fun kvs => kvs.all (fun kv => (run km (.str kv.1)).isOk && (run vm kv.2).isOk)) := by
  unfold mappingSel; split
  · exact isOk_mappingCheckOnly c km vm d
  · exact isOk_mapping c km vm d

/-! ### optional -/
theorem isOk_optionalTail (d r) : (optionalTail d r).isOk = r.isOk := by
  unfold optionalTail
  cases r with
  | ok v => rfl
  | crash c => rfl
  | invalid e =>
    simp only [isOk_invalid]
    have := isOk_badType [.null] d
    cases hb : badType [JClass.null] d with
    | ok v => rw [hb] at this; cases this
    | invalid b => rfl
    | crash c => rfl

theorem isOk_optional (m d) : (run (.optional m) d).isOk = (d.isNull || (run m d).isOk) := by
  rw [run]
  cases h : d.isNull
  · simp [isOk_optionalTail]
  · simp

/-! ### objects -/
def presentCount (fs : List (FieldInfo × Meth)) (kvs : List (String × Py)) : Nat :=
  (fs.filter (fun fm => (lookupKey kvs fm.1.alias).isSome)).length

/-- acceptance of one field without fall-back -/
def fieldOk0 (req : Bool) (o : Option Py) (p : Py → Bool) : Bool :=
  match o with
  | some x => p x
  | Option.none => !req

/-- per-field acceptance as computed by the loop (no fall-back) -/
def fieldsOkM (fs : List (FieldInfo × Meth)) (kvs : List (String × Py)) : Bool :=
  fs.all (fun fm => fieldOk0 fm.1.required (lookupKey kvs fm.1.alias) (fun x => (run fm.2 x).isOk))

theorem fieldsOkM_cons (f m fs kvs) : fieldsOkM ((f, m) :: fs) kvs
    = (fieldOk0 f.required (lookupKey kvs f.alias) (fun x => (run m x).isOk) && fieldsOkM fs kvs) := by
  simp [fieldsOkM]

theorem presentCount_cons (f m fs kvs) : presentCount ((f, m) :: fs) kvs
    = (if (lookupKey kvs f.alias).isSome then 1 else 0) + presentCount fs kvs := by
  unfold presentCount
  rw [List.filter_cons]
  split <;> simp <;> omega

theorem runFields_clean {fs : List (FieldInfo × Meth)} (hnf : NoFbod fs) (u kvs) :
    ((runFields u fs kvs).crash.isNone && (runFields u fs kvs).errs.isEmpty) = fieldsOkM fs kvs
    ∧ ((runFields u fs kvs).crash = Option.none → (runFields u fs kvs).count = presentCount fs kvs) := by
  induction fs with
  | nil => simp [fieldsOkM, presentCount]
  | cons fm fs ih =>
    obtain ⟨f, m⟩ := fm
    have hfb : f.fbod = false := hnf (f, m) (List.mem_cons_self ..)
    obtain ⟨ih1, ih2⟩ := ih (fun x hx => hnf x (List.mem_cons_of_mem _ hx))
    have hne : ∀ e cs, (setChild (Key.name f.alias) e cs).isEmpty = false := by
      intro e cs
      cases hs : setChild (Key.name f.alias) e cs with
      | nil => exact absurd hs (setChild_ne_nil _ _ _)
      | cons a b => rfl
    rw [runFields_cons, fieldsOkM_cons, presentCount_cons, ← ih1]
    simp only [hfb, Bool.and_false]
    cases hl : lookupKey kvs f.alias with
    | none =>
      simp only [Option.map_none, stepField, fieldOk0, Option.isSome_none, Bool.false_eq_true, if_false]
      cases hreq : f.required
      · simp only [Bool.false_eq_true, if_false, Bool.not_false, Bool.true_and, Nat.zero_add]
        exact ⟨trivial, ih2⟩
      · simp only [if_true, Bool.not_true, Bool.false_and, Nat.zero_add]
        refine ⟨?_, fun hc => ih2 hc⟩
        cases (runFields u fs kvs).crash <;> simp [hne]
    | some x =>
      simp only [Option.map_some, stepField, fieldOk0, Option.isSome_some, if_true]
      cases hr : run m x with
      | ok v =>
        simp only [isOk_ok, Bool.true_and]
        exact ⟨trivial, fun hc => by rw [ih2 hc]; omega⟩
      | crash c => simp
      | invalid e =>
        simp only [isOk_invalid, Bool.false_and, Bool.not_false, Bool.or_true, if_true]
        refine ⟨?_, fun hc => by rw [ih2 hc]; omega⟩
        cases (runFields u fs kvs).crash <;> simp [hne]

/-! #### counting keys -/
def keysOf (kvs : List (String × Py)) : List String := kvs.map (·.1)

theorem lookupKey_isSome (kvs : List (String × Py)) (a : String) :
    (lookupKey kvs a).isSome = (keysOf kvs).contains a := by
  unfold lookupKey keysOf
  induction kvs with
  | nil => rfl
  | cons kv kvs ih =>
    obtain ⟨k, v⟩ := kv
    simp only [List.find?_cons, List.map_cons, List.contains_cons]
    by_cases h : (k == a) = true
    · have hk : k = a := by simpa using h
      subst hk; simp
    · have h' : (k == a) = false := by simpa using h
      have h'' : (a == k) = false := by
        rw [Bool.eq_false_iff] at h' ⊢
        intro hh; exact h' (by simpa using (by simpa using hh : a = k).symm)
      simp only [h', h'', Bool.false_or]; exact ih

/-- two duplicate-free lists have as many elements of the one in the other as conversely -/
theorem inter_length_comm {l1 l2 : List String} (h1 : l1.Nodup) (h2 : l2.Nodup) :
    (l1.filter (fun a => l2.contains a)).length = (l2.filter (fun a => l1.contains a)).length := by
  apply List.Perm.length_eq
  rw [List.perm_ext_iff_of_nodup (List.Pairwise.filter _ h1) (List.Pairwise.filter _ h2)]
  intro a
  simp only [List.mem_filter, List.contains_eq_mem, decide_eq_true_eq]
  exact ⟨fun h => ⟨h.2, h.1⟩, fun h => ⟨h.2, h.1⟩⟩

theorem filter_split_length {α} (p : α → Bool) (l : List α) :
    l.length = (l.filter p).length + (l.filter (fun a => !p a)).length := by
  induction l with
  | nil => rfl
  | cons a l ih =>
    simp only [List.filter_cons, List.length_cons]
    cases p a <;> simp <;> omega

theorem presentCount_eq (fs : List (FieldInfo × Meth)) (kvs) :
    presentCount fs kvs = ((aliasesM fs).filter (fun a => (keysOf kvs).contains a)).length := by
  induction fs with
  | nil => simp [presentCount]
  | cons fm fs ih =>
    obtain ⟨f, m⟩ := fm
    rw [presentCount_cons, aliasesM_cons, List.filter_cons, ih, lookupKey_isSome]
    split <;> simp <;> omega

theorem unexpectedKeys_length (aliases : List String) (kvs : List (String × Py)) :
    (unexpectedKeys aliases kvs).length = ((keysOf kvs).filter (fun k => !aliases.contains k)).length := by
  unfold unexpectedKeys keysOf
  rw [List.length_map]
  induction kvs with
  | nil => rfl
  | cons kv kvs ih =>
    simp only [List.filter_cons, List.map_cons]
    split <;> simp only [List.length_cons, ih]

/-- `len(data) == fields_count` exactly when no key is unexpected (dict keys and aliases are distinct) -/
theorem count_eq_iff {fs : List (FieldInfo × Meth)} {kvs : List (String × Py)}
    (hk : (keysOf kvs).Nodup) (ha : (aliasesM fs).Nodup) :
    kvs.length = presentCount fs kvs ↔ unexpectedKeys (aliasesM fs) kvs = [] := by
  have h1 : kvs.length = (keysOf kvs).length := by simp [keysOf]
  have h2 := filter_split_length (fun k => (aliasesM fs).contains k) (keysOf kvs)
  rw [presentCount_eq, inter_length_comm ha hk, ← List.length_eq_zero_iff, unexpectedKeys_length]
  omega

theorem noUnexpected_eq (ap : Bool) (aliases : List String) (kvs : List (String × Py)) :
    noUnexpected ap aliases kvs = (ap || (unexpectedKeys aliases kvs).isEmpty) := by
  unfold noUnexpected unexpectedKeys
  congr 1
  induction kvs with
  | nil => rfl
  | cons kv kvs ih =>
    simp only [List.all_cons, List.filter_cons]
    cases h : aliases.contains kv.1
    · simp
    · simpa using ih

theorem addUnexpected_isEmpty (ks : List String) (errs : List (Key × Err)) :
    (addUnexpected ks errs).isEmpty = (ks.isEmpty && errs.isEmpty) := by
  cases ks with
  | nil => simp [addUnexpected]
  | cons k ks =>
    simp only [List.isEmpty_cons, Bool.false_and]
    cases h : addUnexpected (k :: ks) errs with
    | nil =>
      unfold addUnexpected at h
      rw [List.foldl_cons] at h
      exact absurd (addUnexpected_eq_nil (ks := ks) h) (setChild_ne_nil _ _ _)
    | cons a b => rfl

theorem addDepMissing_eq_nil {ms : List (String × List String)} {errs : List (Key × Err)}
    (h : addDepMissing ms errs = []) : ms = [] ∧ errs = [] := by
  induction ms generalizing errs with
  | nil => exact ⟨rfl, h⟩
  | cons m ms ih =>
    unfold addDepMissing at h
    rw [List.foldl_cons] at h
    exact absurd (ih h).2 (setChild_ne_nil _ _ _)

theorem addDepMissing_isEmpty (ms : List (String × List String)) (errs : List (Key × Err)) :
    (addDepMissing ms errs).isEmpty = (ms.isEmpty && errs.isEmpty) := by
  cases ms with
  | nil => simp [addDepMissing]
  | cons m ms =>
    simp only [List.isEmpty_cons, Bool.false_and]
    cases h : addDepMissing (m :: ms) errs with
    | nil => exact absurd (addDepMissing_eq_nil h).1 (List.cons_ne_nil _ _)
    | cons a b => rfl

/-- the loop reports a `required by` error exactly when `dependent_required` is violated -/
theorem depMissing_isEmpty : ∀ (infos : List FieldInfo) (kvs : List (String × Py)),
    (depMissing infos kvs).isEmpty = depOk infos kvs
  | [], _ => rfl
  | f :: fs, kvs => by
    have ih := depMissing_isEmpty fs kvs
    unfold depOk at ih ⊢
    rw [depMissing, List.all_cons]
    cases hv : depViolated f kvs with
    | true => simp
    | false => simpa using ih

theorem isOk_ite {α} (b : Bool) (x : α) (e : Err) :
    (if b = true then Outcome.ok x else Outcome.invalid e).isOk = b := by
  cases b <;> rfl

/-- acceptance of `ObjectMethod` on a dict -/
theorem isOk_finishObj {ci infos own ap} {fs : List (FieldInfo × Meth)} {kvs : List (String × Py)}
    (hnf : NoFbod fs) (hk : (keysOf kvs).Nodup) (ha : (aliasesM fs).Nodup) (u : Bool) :
    (finishObj ci infos own ap (aliasesM fs) (runFields u fs kvs) kvs).isOk
      = (own.isEmpty && (fieldsOkM fs kvs && noUnexpected ap (aliasesM fs) kvs && depOk infos kvs)) := by
  obtain ⟨h1, h2⟩ := runFields_clean hnf u kvs
  rw [← h1, noUnexpected_eq]
  unfold finishObj
  cases hc : (runFields u fs kvs).crash with
  | some c => simp
  | none =>
    have hcount := h2 hc
    simp only [Option.isNone_none, Bool.true_and]
    -- the error list after the unexpected-property pass
    have herrs : (if (kvs.length != (runFields u fs kvs).count && !ap) = true
          then addUnexpected (unexpectedKeys (aliasesM fs) kvs) (runFields u fs kvs).errs
          else (runFields u fs kvs).errs).isEmpty
        = ((runFields u fs kvs).errs.isEmpty && (ap || (unexpectedKeys (aliasesM fs) kvs).isEmpty)) := by
      cases ap with
      | true => simp
      | false =>
        simp only [Bool.not_false, Bool.and_true, Bool.false_or]
        by_cases hlen : kvs.length = (runFields u fs kvs).count
        · have : unexpectedKeys (aliasesM fs) kvs = [] := (count_eq_iff hk ha).1 (hcount ▸ hlen)
          simp [hlen, this]
        · have : (kvs.length != (runFields u fs kvs).count) = true := by simpa using hlen
          simp only [this, if_true, addUnexpected_isEmpty]
          exact Bool.and_comm _ _
    simp only [isOk_ite, addDepMissing_isEmpty, depMissing_isEmpty, herrs]
    cases own.isEmpty <;> cases (runFields u fs kvs).errs.isEmpty <;> cases ap <;>
      cases (unexpectedKeys (aliasesM fs) kvs).isEmpty <;> cases depOk infos kvs <;> rfl

/-- acceptance of `SimpleObjectMethod` on a dict -/
theorem isOk_finishSimple {ci : ClassInfo} {infos} {fs : List (FieldInfo × Meth)} {kvs : List (String × Py)}
    (hnf : NoFbod fs) (hk : (keysOf kvs).Nodup) (ha : (aliasesM fs).Nodup) (u : Bool) :
    (finishSimple ci infos (aliasesM fs) (runFields u fs kvs) kvs).isOk
      = (fieldsOkM fs kvs && noUnexpected (ci.kind == .typedDict) (aliasesM fs) kvs) := by
  obtain ⟨h1, h2⟩ := runFields_clean hnf u kvs
  rw [← h1, noUnexpected_eq]
  unfold finishSimple
  cases hc : (runFields u fs kvs).crash with
  | some c => simp
  | none =>
    have hcount := h2 hc
    simp only [Option.isNone_none, Bool.true_and]
    have herrs : (if (kvs.length != (runFields u fs kvs).count && ci.kind != ObjKind.typedDict) = true
          then addUnexpected (unexpectedKeys (aliasesM fs) kvs) (runFields u fs kvs).errs
          else (runFields u fs kvs).errs).isEmpty
        = ((runFields u fs kvs).errs.isEmpty && (ci.kind == ObjKind.typedDict || (unexpectedKeys (aliasesM fs) kvs).isEmpty)) := by
      cases htd : ci.kind == ObjKind.typedDict with
      | true => have : (ci.kind != ObjKind.typedDict) = false := by simp [bne, htd]
                simp [this]
      | false =>
        have hne : (ci.kind != ObjKind.typedDict) = true := by simp [bne, htd]
        simp only [hne, Bool.and_true, Bool.false_or]
        by_cases hlen : kvs.length = (runFields u fs kvs).count
        · have : unexpectedKeys (aliasesM fs) kvs = [] := (count_eq_iff hk ha).1 (hcount ▸ hlen)
          simp [hlen, this]
        · have : (kvs.length != (runFields u fs kvs).count) = true := by simpa using hlen
          simp only [this, if_true, addUnexpected_isEmpty]
          exact Bool.and_comm _ _
    simp only [isOk_ite, herrs]

/-! ### scope and main theorem -/
mutual
/-- data as `json.loads` produces them, with distinct keys in every object -/
def Py.wf : Py → Bool
  | .list xs => wfL xs
  | .dict kvs => distinctStrs (keysK kvs) && wfK kvs
  | _ => true
termination_by structural d => d
def wfL : List Py → Bool
  | [] => true
  | x :: xs => x.wf && wfL xs
termination_by structural xs => xs
def wfK : List (String × Py) → Bool
  | [] => true
  | (_, v) :: kvs => v.wf && wfK kvs
termination_by structural kvs => kvs
def keysK : List (String × Py) → List String
  | [] => []
  | (k, _) :: kvs => k :: keysK kvs
termination_by structural kvs => kvs
end

mutual
/-- scope of the acceptance theorem (version 1) -/
def Ty.acc : Ty → Bool
  | .list t | .vtuple t | .newtype _ t | .ann _ t => t.acc
  | .set _ | .frozenset _ => false
  | .tuple ts => accL ts
  | .mapping k v => k.acc && v.acc
  | .union ts => accOpt ts
  | .obj _ fs => distinctStrs (aliasesOf fs) && accF fs
  | _ => true
termination_by structural t => t
def accL : List Ty → Bool
  | [] => true
  | t :: ts => t.acc && accL ts
termination_by structural ts => ts
/-- `Optional[T]`: exactly `[T, None]` with `T` not itself of class `NoneType` -/
def accOpt : List Ty → Bool
  | [t, .null] => t.acc && (t.factoryCls != some .null)
  | _ => false
termination_by structural ts => ts
def accF : List (FieldInfo × Ty) → Bool
  | [] => true
  | (f, t) :: fs => !f.fbod && t.acc && accF fs
termination_by structural fs => fs
end

/-- a `None`-class alternative of a union is `None` itself (not a NewType of / an annotated `None`) -/
def sideOk (t : Ty) : Bool := (t.factoryCls != some .null) || t.isNull

mutual
/-- scope of the acceptance and no-crash theorems, version 2: as `Ty.acc`, with unions of any shape at any depth
    (at least one alternative that is not `None`) -/
def Ty.accU : Ty → Bool
  | .list t | .vtuple t | .newtype _ t | .ann _ t => t.accU
  | .set _ | .frozenset _ => false
  | .tuple ts => accUL ts
  | .mapping k v => k.accU && v.accU
  | .union ts => accUL ts && ts.all sideOk && !ts.all Ty.isNull
  | .obj _ fs => distinctStrs (aliasesOf fs) && accUF fs
  | _ => true
termination_by structural t => t
def accUL : List Ty → Bool
  | [] => true
  | t :: ts => t.accU && accUL ts
termination_by structural ts => ts
def accUF : List (FieldInfo × Ty) → Bool
  | [] => true
  | (f, t) :: fs => !f.fbod && t.accU && accUF fs
termination_by structural fs => fs
end

theorem wfL_mem : ∀ {xs : List Py}, wfL xs = true → ∀ x ∈ xs, x.wf = true
  | [], _, x, hx => by cases hx
  | y :: ys, h, x, hx => by
    rw [wfL, Bool.and_eq_true] at h
    rcases List.mem_cons.1 hx with rfl | hm
    · exact h.1
    · exact wfL_mem h.2 x hm

theorem wfK_mem : ∀ {kvs : List (String × Py)}, wfK kvs = true → ∀ kv ∈ kvs, kv.2.wf = true
  | [], _, x, hx => by cases hx
  | (k, v) :: ys, h, x, hx => by
    rw [wfK, Bool.and_eq_true] at h
    rcases List.mem_cons.1 hx with rfl | hm
    · exact h.1
    · exact wfK_mem h.2 x hm

theorem keysK_eq : ∀ kvs, keysK kvs = keysOf kvs
  | [] => by rw [keysK]; rfl
  | (k, v) :: kvs => by rw [keysK, keysK_eq kvs]; rfl

theorem all_congr_mem {α} {l : List α} {p q : α → Bool} (h : ∀ a ∈ l, p a = q a) : l.all p = l.all q := by
  induction l with
  | nil => rfl
  | cons a l ih =>
    simp only [List.all_cons, h a (List.mem_cons_self ..), ih (fun b hb => h b (List.mem_cons_of_mem _ hb))]

theorem listOk_congr_mem {c d} {p q : Py → Bool} (h : ∀ xs, d = .list xs → ∀ x ∈ xs, p x = q x) :
    listOk c d p = listOk c d q := by
  cases d <;> try rfl
  case list xs => simp only [listOk]; rw [all_congr_mem (h xs rfl)]

/-- the options covered: strict, no global fall-back, the two dominant defects repaired -/
structure OptsOk (o : DOpts) : Prop where
  fbod : o.fallBackOnDefault = false
  quirks : o.quirks = Quirks.repaired

/-- per (method, type): acceptance of the method = conformance to the type -/
def Accepts (o : DOpts) (cs : Constraints) (m : Meth) (t : Ty) : Prop :=
  ∀ d, d.wf = true → (run m d).isOk = conforms o.additionalProperties false cs t d

abbrev AcceptsL (o : DOpts) (cs : Constraints) := All2 (Accepts o cs)
abbrev AcceptsF (o : DOpts) :=
  All2 (fun (fm : FieldInfo × Meth) (ft : FieldInfo × Ty) => fm.1 = ft.1 ∧ Accepts o {} fm.2 ft.2)

theorem zipOk_of_AcceptsL {o ms ts} (h : AcceptsL o {} ms ts) : ∀ xs, wfL xs = true →
    zipOkM ms xs = conformsZip o.additionalProperties false ts xs := by
  induction h with
  | nil => intro xs _; cases xs <;> simp [zipOkM, conformsZip]
  | cons hm _ ih =>
    intro xs hw
    cases xs with
    | nil => simp [zipOkM, conformsZip]
    | cons x xs =>
      rw [wfL, Bool.and_eq_true] at hw
      simp only [zipOkM, conformsZip, hm x hw.1, ih xs hw.2]

theorem lookupKey_wf {kvs : List (String × Py)} (hw : wfK kvs = true) {a x} (hl : lookupKey kvs a = some x) :
    x.wf = true := by
  unfold lookupKey at hl
  cases hfind : kvs.find? (fun kv => kv.1 == a) with
  | none => simp [hfind] at hl
  | some kv =>
    simp only [hfind, Option.map_some, Option.some.injEq] at hl
    exact hl ▸ wfK_mem hw kv (List.mem_of_find?_eq_some hfind)

/-- no field-level `fall_back_on_default` -/
def nfF : List (FieldInfo × Ty) → Bool
  | [] => true
  | (f, _) :: fs => !f.fbod && nfF fs

theorem nfF_of_accF : ∀ {fs : List (FieldInfo × Ty)}, accF fs = true → nfF fs = true
  | [], _ => rfl
  | (f, t) :: fs, h => by
    rw [accF] at h; simp only [Bool.and_eq_true, Bool.not_eq_true'] at h
    simp [nfF, h.1.1, nfF_of_accF h.2]

theorem fields_of_AcceptsF {o ms ts} (h : AcceptsF o ms ts) (hacc : nfF ts = true) :
    (∀ kvs, wfK kvs = true → fieldsOkM ms kvs = conformsF o.additionalProperties false ts kvs)
    ∧ aliasesM ms = aliasesOf ts ∧ NoFbod ms := by
  induction h with
  | nil => exact ⟨fun kvs _ => by simp [fieldsOkM, conformsF], by simp [aliasesOf], fun fm h => by cases h⟩
  | @cons a b l1 l2 hab _ ih =>
    obtain ⟨f, m⟩ := a; obtain ⟨f', t⟩ := b
    obtain ⟨hf, hm⟩ := hab
    simp only at hf hm; subst hf
    rw [nfF] at hacc
    simp only [Bool.and_eq_true, Bool.not_eq_true'] at hacc
    obtain ⟨ih1, ih2, ih3⟩ := ih hacc.2
    refine ⟨fun kvs hw => ?_, by rw [aliasesM_cons, aliasesOf, ih2], ?_⟩
    · rw [fieldsOkM_cons, conformsF, ih1 kvs hw]
      congr 1
      unfold fieldOk0 fieldOk
      cases hl : lookupKey kvs f.alias with
      | none => rfl
      | some x => simp only [hm x (lookupKey_wf hw hl), hacc.1, Bool.or_false, Bool.and_false]
    · intro fm hfm
      rcases List.mem_cons.1 hfm with rfl | hmem
      · exact hacc.1
      · exact ih3 fm hmem

theorem dictOk_congr {c d} {p q : List (String × Py) → Bool}
    (h : ∀ kvs, d = .dict kvs → p kvs = q kvs) : dictOk c d p = dictOk c d q := by
  cases d <;> try rfl
  case dict kvs => simp only [dictOk, h kvs rfl]

theorem withFbod_id {o : DOpts} (ho : o.fallBackOnDefault = false) (f : FieldInfo) : withFbod o f = f := by
  unfold withFbod; simp [ho]

/-- the compiled fields carry the declared field records -/
theorem infos_of_All2 {P : Meth → Ty → Prop} {ms : List (FieldInfo × Meth)} {ts : List (FieldInfo × Ty)}
    (h : All2 (fun (fm : FieldInfo × Meth) (ft : FieldInfo × Ty) => fm.1 = ft.1 ∧ P fm.2 ft.2) ms ts) :
    infosM ms = infosOf ts := by
  induction h with
  | nil => rfl
  | @cons a b l1 l2 hab _ ih =>
    obtain ⟨f, m⟩ := a; obtain ⟨f', t⟩ := b
    rw [infosM, ih]; unfold infosOf; rw [List.map_cons]
    exact congrArg (· :: _) hab.1

/-- acceptance of whichever object method `object()` selects -/
theorem isOk_objSel {o : DOpts} {ci c} {ms : List (FieldInfo × Meth)} {ts : List (FieldInfo × Ty)}
    (h : AcceptsF o ms ts) (hacc : nfF ts = true) (hal : (aliasesOf ts).Nodup) (d : Py) (hw : d.wf = true) :
    (run (objSel o ci c ms) d).isOk
      = dictOk c d (fun kvs => conformsF o.additionalProperties false ts kvs
                                && noUnexpected o.additionalProperties (aliasesOf ts) kvs && depOk (infosOf ts) kvs) := by
  obtain ⟨hfields, halias, hnf⟩ := fields_of_AcceptsF h hacc
  have hinfos := infos_of_All2 h
  have ha : (aliasesM ms).Nodup := halias ▸ hal
  unfold objSel
  simp only
  split
  · -- SimpleObjectMethod
    rename_i hcond
    simp only [Bool.and_eq_true, Bool.not_eq_true', beq_iff_eq] at hcond
    obtain ⟨⟨⟨hc, htd⟩, _⟩, hsimple⟩ := hcond
    rw [run]
    cases d <;> simp [onDict, dictOk, isOk_badType]
    case dict kvs =>
      rw [Py.wf, Bool.and_eq_true] at hw
      have hk : (keysOf kvs).Nodup := keysK_eq kvs ▸ nodup_of_distinctStrs hw.1
      rw [isOk_finishSimple hnf hk ha, hfields kvs hw.2, halias, dictErrors_nil hc, htd, ← hinfos,
        depOk_of_noDeps (simpleOk_noDeps hsimple) kvs]
      simp
  · -- ObjectMethod
    rw [run]
    cases d <;> simp [onDict, dictOk, isOk_badType]
    case dict kvs =>
      rw [Py.wf, Bool.and_eq_true] at hw
      have hk : (keysOf kvs).Nodup := keysK_eq kvs ▸ nodup_of_distinctStrs hw.1
      rw [isOk_finishObj hnf hk ha, hfields kvs hw.2, halias, hinfos]

theorem lastMatch_isSome (d : Py) : ∀ (vs : List Lit) (i : Nat) (acc : Option (Nat × Lit)),
    (runLiteral.lastMatch d vs i acc).isSome = (acc.isSome || vs.any (litMatches d))
  | [], _, acc => by simp [runLiteral.lastMatch]
  | l :: ls, i, acc => by
    rw [runLiteral.lastMatch, lastMatch_isSome d ls]
    cases h : litMatches d l <;> simp [h]

theorem isOk_runLiteral (vs en d) :
    (runLiteral vs en d).isOk = (d.hashable && vs.any (litMatches d)) := by
  unfold runLiteral
  cases hh : d.hashable
  · simp [isOk_badType]
  · have hm := lastMatch_isSome d vs 0 Option.none
    simp only [Bool.not_true, Bool.false_eq_true, if_false, Bool.true_and]
    cases hl : runLiteral.lastMatch d vs 0 Option.none with
    | none =>
      rw [hl] at hm; simp only [Option.isSome_none, Bool.false_or] at hm
      rw [← hm]; cases d <;> rfl
    | some p =>
      rw [hl] at hm; simp only [Option.isSome_some, Option.isSome_none, Bool.false_or] at hm
      rw [← hm]; cases en <;> rfl

theorem accOpt_cases {ts : List Ty} (h : accOpt ts = true) :
    ∃ t, ts = [t, .null] ∧ t.acc = true ∧ (t.factoryCls != some JClass.null) = true := by
  unfold accOpt at h
  split at h
  · next t =>
    rw [Bool.and_eq_true] at h
    exact ⟨t, rfl, h.1, h.2⟩
  · cases h

/-- version 1 of the scope is inside version 2 -/
theorem acc_accU :
    (∀ t : Ty, t.acc = true → t.accU = true) ∧
    (∀ fs : List (FieldInfo × Ty), accF fs = true → accUF fs = true) ∧
    (∀ ts : List Ty, accOpt ts = true → (accUL ts && ts.all sideOk && !ts.all Ty.isNull) = true) ∧
    (∀ ts : List Ty, accL ts = true → accUL ts = true) := by
  apply Ty.acc.mutual_induct
  · intro t ih h; rw [Ty.acc] at h; rw [Ty.accU]; exact ih h
  · intro t ih h; rw [Ty.acc] at h; rw [Ty.accU]; exact ih h
  · intro n t ih h; rw [Ty.acc] at h; rw [Ty.accU]; exact ih h
  · intro c t ih h; rw [Ty.acc] at h; rw [Ty.accU]; exact ih h
  · intro t h; rw [Ty.acc] at h; cases h
  · intro t h; rw [Ty.acc] at h; cases h
  · intro ts ih h; rw [Ty.acc] at h; rw [Ty.accU]; exact ih h
  · intro k v ihk ihv h; rw [Ty.acc, Bool.and_eq_true] at h; rw [Ty.accU, ihk h.1, ihv h.2]; rfl
  · intro ts ih h; rw [Ty.acc] at h; rw [Ty.accU]; exact ih h
  · intro c fs ih h; rw [Ty.acc, Bool.and_eq_true] at h; rw [Ty.accU, h.1, ih h.2]; rfl
  · -- every other constructor: both scopes are `true`
    intro t h1 h2 h3 h4 h5 h6 h7 h8 h9 h10 _
    cases t
    any_goals rfl
    all_goals exfalso
    any_goals exact h1 _ rfl
    any_goals exact h2 _ rfl
    any_goals exact h3 _ _ rfl
    any_goals exact h4 _ _ rfl
    any_goals exact h5 _ rfl
    any_goals exact h6 _ rfl
    any_goals exact h7 _ rfl
    any_goals exact h8 _ _ rfl
    any_goals exact h9 _ rfl
    any_goals exact h10 _ _ rfl
  · intro t ih h
    obtain ⟨t', he, hacc, hcls⟩ := accOpt_cases h
    simp only [List.cons.injEq, and_true] at he; subst he
    have hn : t.isNull = false := by cases t <;> first | rfl | (simp [Ty.factoryCls] at hcls)
    simp [accUL, ih hacc, Ty.accU, sideOk, hcls]
    exact ⟨Or.inr rfl, Or.inl hn⟩
  · intro ts hne h
    obtain ⟨t', he, _, _⟩ := accOpt_cases h
    exact absurd he (fun h => hne t' h)
  · intro _; rfl
  · intro t ts iht ihts h; rw [accL, Bool.and_eq_true] at h; rw [accUL, iht h.1, ihts h.2]; rfl
  · intro _; rfl
  · intro f t fs iht ihfs h
    rw [accF] at h; simp only [Bool.and_eq_true, Bool.not_eq_true'] at h
    rw [accUF, h.1.1, iht h.1.2, ihfs h.2]; rfl

/-- **C01 (acceptance), version 1.** For every type in `Ty.acc`, every inherited constraint set, every
    value of `additional_properties`, `no_copy` and `override_dataclass_constructors`, and every datum
    with distinct object keys, the compiled method returns a value exactly when the datum conforms. -/
theorem accepts_iff_conforms (o : DOpts) (ho : OptsOk o) :
    (∀ cs t, t.acc = true → Accepts o cs (compile o cs t) t) ∧
    (∀ fs, accF fs = true → AcceptsF o (compileF o fs) fs) ∧
    (∀ cs ts, accL ts = true → AcceptsL o cs (compileL o cs ts) ts) := by
  have hq1 : o.quirks.floatAcceptsBool = false := by rw [ho.quirks]; rfl
  have hq2 : o.quirks.tupleDropsErrors = false := by rw [ho.quirks]; rfl
  apply compile.mutual_induct
  · intro cs _ d _; rw [compile, run, conforms]; exact isOk_runNone d
  · intro cs _ d _; rw [compile, run, conforms]; exact isOk_runBool d
  · intro cs h _ d _; rw [compile, if_pos h, run, conforms]; exact isOk_runInt cs d
  · intro cs h _ d _
    rw [compile, if_neg h, run, conforms, isOk_runInt]
    have : cs.numErrors = ({} : Constraints).numErrors := by
      funext x
      simp only [Constraints.hasNum, Bool.or_eq_true, not_or, Bool.not_eq_true, Option.isSome_eq_false_iff, Option.isNone_iff_eq_none] at h
      simp [Constraints.numErrors, optRule, h.1.1.1.1, h.1.1.1.2, h.1.1.2, h.1.2, h.2]
    unfold intOk; rw [this]
  · intro cs h _ d _; rw [compile, if_pos h, hq1, run, conforms]; exact isOk_runFloat cs d
  · intro cs h _ d _
    rw [compile, if_neg h, hq1, run, conforms, isOk_runFloat]
    have : cs.numErrors = ({} : Constraints).numErrors := by
      funext x
      simp only [Constraints.hasNum, Bool.or_eq_true, not_or, Bool.not_eq_true, Option.isSome_eq_false_iff, Option.isNone_iff_eq_none] at h
      simp [Constraints.numErrors, optRule, h.1.1.1.1, h.1.1.1.2, h.1.1.2, h.1.2, h.2]
    unfold floatOk intAsFloatOk; rw [this]
  · intro cs h _ d _; rw [compile, if_pos h, run, conforms]; exact isOk_runStr cs d
  · intro cs h _ d _
    rw [compile, if_neg h, run, conforms, isOk_runStr]
    have : cs.strErrors = ({} : Constraints).strErrors := by
      funext x
      simp only [Constraints.hasStr, Bool.or_eq_true, not_or, Bool.not_eq_true, Option.isSome_eq_false_iff, Option.isNone_iff_eq_none] at h
      simp [Constraints.strErrors, optRule, h.1.1, h.1.2, h.2]
    unfold strOk; rw [this]
  · intro cs _ d _; rw [compile, run, conforms]; exact isOk_runAny cs d
  · -- list
    intro cs t ih hs d hw
    rw [Ty.acc] at hs
    rw [compile, isOk_listSel, conforms]
    apply listOk_congr_mem
    intro xs hd x hx
    subst hd; rw [Py.wf] at hw
    exact ih hs x (wfL_mem hw x hx)
  · intro cs t _ hs; rw [Ty.acc] at hs; cases hs
  · intro cs t _ hs; rw [Ty.acc] at hs; cases hs
  · -- variadic tuple
    intro cs t ih hs d hw
    rw [Ty.acc] at hs
    rw [compile, run, isOk_mapVal_tuple, isOk_listSel, conforms]
    apply listOk_congr_mem
    intro xs hd x hx
    subst hd; rw [Py.wf] at hw
    exact ih hs x (wfL_mem hw x hx)
  · -- tuple
    intro cs ts ih hs d hw
    rw [Ty.acc] at hs
    rw [compile, hq2, isOk_tuple, conforms, (ih hs).length_eq]
    cases d <;> try rfl
    case list xs =>
      rw [Py.wf] at hw
      simp only [tupleOk, zipOk_of_AcceptsL (ih hs) xs hw]
  · -- mapping
    intro cs k v ihk ihv hs d hw
    rw [Ty.acc, Bool.and_eq_true] at hs
    rw [compile, isOk_mappingSel, conforms]
    apply dictOk_congr
    intro kvs hd
    subst hd; rw [Py.wf, Bool.and_eq_true] at hw
    apply all_congr_mem
    intro kv hkv
    rw [ihk hs.1 (.str kv.1) rfl, ihv hs.2 kv.2 (wfK_mem hw.2 kv hkv)]
  · -- Optional[T]
    intro cs ts ih hs d hw
    rw [Ty.acc] at hs
    obtain ⟨t, rfl, hacc, hcls⟩ := accOpt_cases hs
    have hl := ih (by rw [accL, accL, accL]; simp [hacc, Ty.acc])
    rw [compile, compileL, compileL, compileL, clsL, clsL, clsL, anyNull, anyNull, anyNull]
    have hsel : unionSel [t.factoryCls, Ty.null.factoryCls] (t.isNull || (Ty.null.isNull || false))
        [compile o cs t, compile o cs Ty.null] = .optional (compile o cs t) := by
      unfold unionSel
      simp [Ty.isNull, hcls]
    rw [hsel, isOk_optional, conforms, conformsAny, conformsAny, conformsAny, conforms]
    cases hl with
    | cons hm _ => rw [hm d hw]; simp [Bool.or_comm]
  · intro cs vs _ d _; rw [compile, run, conforms]
    exact isOk_runLiteral vs _ d
  · intro cs c ms _ d _; rw [compile, run, conforms, isOk_runLiteral, List.any_map]
    rfl
  · intro cs n t ih hs d hw; rw [Ty.acc] at hs; rw [compile, conforms]; exact ih hs d hw
  · intro cs c t ih hs d hw; rw [Ty.acc] at hs; rw [compile, conforms]; exact ih hs d hw
  · -- objects
    intro cs ci fs ih hs d hw
    rw [Ty.acc, Bool.and_eq_true] at hs
    rw [compile, conforms]
    exact isOk_objSel (ih hs.2) (nfF_of_accF hs.2) (nodup_of_distinctStrs hs.1) d hw
  · intro cs _; rw [compileL]; exact All2.nil
  · intro cs t ts iht ihts hs
    rw [accL, Bool.and_eq_true] at hs
    rw [compileL]; exact All2.cons (iht hs.1) (ihts hs.2)
  · intro _; rw [compileF]; exact All2.nil
  · intro f t fs iht ihfs hs
    have hs' := hs
    rw [accF] at hs
    simp only [Bool.and_eq_true, Bool.not_eq_true'] at hs
    rw [compileF]
    exact All2.cons ⟨withFbod_id ho.fbod f, iht hs.1.2⟩ (ihfs hs.2)

/-! ### no build-time failure inside the scope -/

theorem failure_listSel (o c m) : (listSel o c m).failure? = m.failure? := by
  unfold listSel; split <;> rw [Meth.failure?]
theorem failure_mappingSel (o c k v) :
    (mappingSel o c k v).failure? = (k.failure?).orElse (fun _ => v.failure?) := by
  unfold mappingSel; split <;> rw [Meth.failure?]
theorem failure_objSel (o ci c fs) : (objSel o ci c fs).failure? = failureF fs := by
  unfold objSel; dsimp only; split <;> rw [Meth.failure?]

/-- some alternative is not of class `NoneType`: `next(...)` in `union()` finds it -/
theorem find_nonNull (o : DOpts) (cs : Constraints) : ∀ ts : List Ty, ts.all sideOk = true → ts.all Ty.isNull = false →
    (((clsL ts).zip (compileL o cs ts)).find? (fun p => p.1 != some JClass.null)).isSome = true
  | [], _, h => by simp at h
  | t :: ts, hs, hn => by
    rw [clsL, compileL, List.zip_cons_cons, List.find?_cons]
    rw [List.all_cons, Bool.and_eq_true] at hs
    cases hc : (t.factoryCls != some JClass.null) with
    | true => rfl
    | false =>
      simp only
      have ht : t.isNull = true := by
        have := hs.1; unfold sideOk at this; rw [hc, Bool.false_or] at this; exact this
      rw [List.all_cons, ht, Bool.true_and] at hn
      exact find_nonNull o cs ts hs.2 hn

theorem failureT_zip : ∀ (known : List JClass) (ms : List Meth), failureL ms = Option.none →
    failureT (known.zip ms) = Option.none
  | [], _, _ => by rw [List.zip_nil_left, failureT]
  | _ :: _, [], _ => by rw [List.zip_nil_right, failureT]
  | c :: known, m :: ms, h => by
    rw [failureL] at h
    cases hm : m.failure? with
    | some e => rw [hm] at h; cases h
    | none =>
      rw [hm] at h
      rw [List.zip_cons_cons, failureT, hm]
      exact failureT_zip known ms h

theorem failureL_mem : ∀ {ms : List Meth}, failureL ms = Option.none → ∀ m ∈ ms, m.failure? = Option.none
  | m' :: ms, h, m, hm => by
    rw [failureL] at h
    cases hm' : m'.failure? with
    | some e => rw [hm'] at h; cases h
    | none =>
      rw [hm'] at h
      rcases List.mem_cons.1 hm with rfl | hmem
      · exact hm'
      · exact failureL_mem h m hmem

theorem failure_unionSel {clss : List (Option JClass)} {hasNone : Bool} {ms : List Meth}
    (hfind : ((clss.zip ms).find? (fun p => p.1 != some JClass.null)).isSome = true)
    (h : failureL ms = Option.none) : (unionSel clss hasNone ms).failure? = Option.none := by
  unfold unionSel
  simp only
  split
  · split
    · next p m hf =>
      rw [Meth.failure?]
      exact failureL_mem h m (List.of_mem_zip (List.mem_of_find?_eq_some hf)).2
    · next hf => rw [hf] at hfind; cases hfind
  · split
    · rw [Meth.failure?]; exact failureT_zip _ ms h
    · rw [Meth.failure?]; exact h

/-- no exception while the method tree is built, over the scope `Ty.accU` -/
theorem compile_noFailU (o : DOpts) :
    (∀ cs t, t.accU = true → (compile o cs t).failure? = Option.none) ∧
    (∀ fs, accUF fs = true → failureF (compileF o fs) = Option.none) ∧
    (∀ cs ts, accUL ts = true → failureL (compileL o cs ts) = Option.none) := by
  apply compile.mutual_induct
  · intro cs _; rw [compile]; rfl
  · intro cs _; rw [compile]; rfl
  · intro cs h _; rw [compile, if_pos h]; rfl
  · intro cs h _; rw [compile, if_neg h]; rfl
  · intro cs h _; rw [compile, if_pos h]; rfl
  · intro cs h _; rw [compile, if_neg h]; rfl
  · intro cs h _; rw [compile, if_pos h]; rfl
  · intro cs h _; rw [compile, if_neg h]; rfl
  · intro cs _; rw [compile]; rfl
  · intro cs t ih hs; rw [Ty.accU] at hs; rw [compile, failure_listSel]; exact ih hs
  · intro cs t _ hs; rw [Ty.accU] at hs; cases hs
  · intro cs t _ hs; rw [Ty.accU] at hs; cases hs
  · intro cs t ih hs; rw [Ty.accU] at hs; rw [compile, Meth.failure?, failure_listSel]; exact ih hs
  · intro cs ts ih hs; rw [Ty.accU] at hs; rw [compile, Meth.failure?]; exact ih hs
  · intro cs k v ihk ihv hs
    rw [Ty.accU, Bool.and_eq_true] at hs
    rw [compile, failure_mappingSel, ihk hs.1, ihv hs.2]; rfl
  · intro cs ts ih hs
    rw [Ty.accU] at hs
    simp only [Bool.and_eq_true, Bool.not_eq_true', Bool.not_eq_eq_eq_not, Bool.not_true] at hs
    rw [compile]
    exact failure_unionSel (find_nonNull o cs ts hs.1.2 hs.2) (ih hs.1.1)
  · intro cs vs _; rw [compile]; rfl
  · intro cs c ms _; rw [compile]; rfl
  · intro cs n t ih hs; rw [Ty.accU] at hs; rw [compile]; exact ih hs
  · intro cs c t ih hs; rw [Ty.accU] at hs; rw [compile]; exact ih hs
  · intro cs ci fs ih hs
    rw [Ty.accU, Bool.and_eq_true] at hs
    rw [compile, failure_objSel]; exact ih hs.2
  · intro cs _; rw [compileL, failureL]
  · intro cs t ts iht ihts hs
    rw [accUL, Bool.and_eq_true] at hs
    rw [compileL, failureL, iht hs.1, ihts hs.2]; rfl
  · intro _; rw [compileF, failureF]
  · intro f t fs iht ihfs hs
    rw [accUF] at hs
    simp only [Bool.and_eq_true, Bool.not_eq_true'] at hs
    rw [compileF, failureF, iht hs.1.2, ihfs hs.2]; rfl


theorem compile_noFail (o : DOpts) :
    (∀ cs t, t.acc = true → (compile o cs t).failure? = Option.none) ∧
    (∀ fs, accF fs = true → failureF (compileF o fs) = Option.none) ∧
    (∀ cs ts, accL ts = true → failureL (compileL o cs ts) = Option.none) :=
  ⟨fun cs t ha => (compile_noFailU o).1 cs t (acc_accU.1 t ha),
   fun fs ha => (compile_noFailU o).2.1 fs (acc_accU.2.1 fs ha),
   fun cs ts ha => (compile_noFailU o).2.2 cs ts (acc_accU.2.2.2 ts ha)⟩

/-- **C01 (acceptance), entry point.** `deserialize(T, data)` returns a value iff `data` conforms to `T`,
    for every `T` in scope, every inherited constraint set, `additional_properties`, `no_copy`,
    `override_dataclass_constructors`, and every datum with distinct object keys. -/
theorem C01_accept (o : DOpts) (ho : OptsOk o) (cs : Constraints) (t : Ty) (ht : t.acc = true)
    (d : Py) (hd : d.wf = true) :
    (deserialize o cs t d).isOk = conforms o.additionalProperties false cs t d := by
  unfold deserialize
  simp only [(compile_noFail o).1 cs t ht]
  exact (accepts_iff_conforms o ho).1 cs t ht d hd

/-! ### the hypotheses are satisfiable, and both verdicts occur -/

def exTy : Ty :=
  .obj { name := "A" }
    [({ name := "xs", alias := "xs", required := true }, .list (.union [.int, .null])),
     ({ name := "m", alias := "mm", required := false, dflt := some .emptyDict },
        .mapping .str (.tuple [.float, .literal [.str "a", .int 1]]))]

def exOpts : DOpts := { quirks := Quirks.repaired }

example : OptsOk exOpts := ⟨rfl, rfl⟩
example : exTy.acc = true := by decide +kernel
example : (Py.dict [("xs", .list [.int 1, .null]), ("mm", .dict [("k", .list [.int 2, .int 1])])]).wf = true := by
  decide +kernel
example : conforms false false {} exTy
    (.dict [("xs", .list [.int 1, .null]), ("mm", .dict [("k", .list [.int 2, .int 1])])]) = true := by
  decide +kernel
example : conforms false false {} exTy
    (.dict [("xs", .list [.int 1, .null]), ("mm", .dict [("k", .list [.bool true, .int 1])])]) = false := by
  decide +kernel

end Api
