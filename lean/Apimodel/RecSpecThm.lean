import Apimodel.RecDepthThm
/-! The executable reference `onCycleB` (driver, harness) *is* the specification `OnCycle`: breadth-first search bounded by the number of entries of the graph
finds every cycle, because a shortest path repeats no node and every node of it but the last has an entry. -/
namespace Api.Rec

theorem nodup_dropWhile (p : Node → Bool) : ∀ (l : List Node), l.Nodup → (l.dropWhile p).Nodup
  | [], h => h
  | a :: l, h => by
    rw [List.dropWhile_cons]
    split
    · exact nodup_dropWhile p l (List.nodup_cons.1 h).2
    · exact h

theorem mem_of_mem_dropWhile (p : Node → Bool) : ∀ (l : List Node) (x : Node), x ∈ l.dropWhile p → x ∈ l
  | [], _, h => h
  | a :: l, x, h => by
    rw [List.dropWhile_cons] at h
    split at h
    · exact List.mem_cons_of_mem _ (mem_of_mem_dropWhile p l x h)
    · exact h

theorem dropWhile_ne_nil_of_mem (n : Node) : ∀ (l : List Node), n ∈ l → l.dropWhile (· != n) ≠ []
  | [], h => by cases h
  | a :: l, h => by
    rw [List.dropWhile_cons]
    split
    · rename_i hne
      rcases List.mem_cons.1 h with rfl | h'
      · simp at hne
      · exact dropWhile_ne_nil_of_mem n l h'
    · exact List.cons_ne_nil _ _

/-- a path without repetition between two nodes related by `Reach` -/
theorem simple_path {g : Graph} {a c : Node} (h : Reach g a c) :
    ∃ p : List Node, Chain g (a :: p) ∧ (a :: p).getLast? = some c ∧ (a :: p).Nodup := by
  induction h with
  | refl a => exact ⟨[], trivial, rfl, List.nodup_cons.2 ⟨List.not_mem_nil, List.nodup_nil⟩⟩
  | @step a b c e _ ih =>
    obtain ⟨q, hc, hl, hn⟩ := ih
    by_cases ha : a ∈ b :: q
    · -- cut the loop: the part of `b :: q` from `a` on
      have hne := dropWhile_ne_nil_of_mem a (b :: q) ha
      cases hd : (b :: q).dropWhile (· != a) with
      | nil => exact absurd hd hne
      | cons y ys =>
        have hy : y = a := dropWhile_head a (b :: q) y ys hd
        subst hy
        refine ⟨ys, ?_, ?_, ?_⟩
        · rw [← hd]; exact chain_dropWhile _ _ hc
        · rw [← hd, dropWhile_getLast _ _ hne]; exact hl
        · rw [← hd]; exact nodup_dropWhile _ _ hn
    · exact ⟨b :: q, ⟨e, hc⟩, by rw [List.getLast?_cons_cons]; exact hl, List.nodup_cons.2 ⟨ha, hn⟩⟩

/-- the last node of a chain starting in `front` is found within as many rounds as the chain has edges -/
theorem chain_found {g : Graph} : ∀ (p : List Node) (a : Node) (front : List Node) (k : Nat) (c : Node),
    Chain g (a :: p) → a ∈ front → p.length ≤ k → (a :: p).getLast? = some c → c ∈ reachFrom g k front
  | [], a, front, k, c, _, ha, _, hl => by
    have : a = c := by simpa using hl
    subst this
    cases k with
    | zero => exact ha
    | succ k => unfold reachFrom; exact List.mem_append.2 (Or.inl ha)
  | b :: p, a, front, k, c, hc, ha, hk, hl => by
    cases k with
    | zero => simp at hk
    | succ k =>
      unfold reachFrom
      refine List.mem_append.2 (Or.inr ?_)
      have hb : b ∈ front.flatMap (children g) := List.mem_flatMap.2 ⟨a, ha, hc.1⟩
      have hl' : (b :: p).getLast? = some c := by rw [List.getLast?_cons_cons] at hl; exact hl
      exact chain_found p b _ k c hc.2 hb (by simpa using hk) hl'

/-- a node with a child has an entry in the graph -/
theorem key_of_edge {g : Graph} {a b : Node} (h : Edge g a b) : a ∈ g.map (·.1) := by
  unfold Edge children at h
  split at h
  · rename_i k cs hf
    have hk : k = a := by simpa using List.find?_some hf
    exact List.mem_map.2 ⟨(k, cs), List.mem_of_find?_eq_some hf, hk⟩
  · cases h

/-- every node of a chain but the last has an entry -/
theorem chain_sources {g : Graph} : ∀ (p : List Node) (a : Node), Chain g (a :: p) → ∀ x ∈ (a :: p).dropLast, x ∈ g.map (·.1)
  | [], _, _, x, hx => by simp at hx
  | b :: p, a, hc, x, hx => by
    have : (a :: b :: p).dropLast = a :: (b :: p).dropLast := rfl
    rw [this] at hx
    rcases List.mem_cons.1 hx with rfl | hx'
    · exact key_of_edge hc.1
    · exact chain_sources p b hc.2 x hx'

theorem mem_of_mem_dropLast' : ∀ (l : List Node) (x : Node), x ∈ l.dropLast → x ∈ l
  | [], _, h => h
  | [_], _, h => by cases h
  | a :: b :: l, x, h => by
    have : (a :: b :: l).dropLast = a :: (b :: l).dropLast := rfl
    rw [this] at h
    rcases List.mem_cons.1 h with rfl | h'
    · exact List.mem_cons_self ..
    · exact List.mem_cons_of_mem _ (mem_of_mem_dropLast' (b :: l) x h')

theorem nodup_dropLast : ∀ (l : List Node), l.Nodup → l.dropLast.Nodup
  | [], h => h
  | [_], _ => List.nodup_nil
  | a :: b :: l, h => by
    have : (a :: b :: l).dropLast = a :: (b :: l).dropLast := rfl
    rw [this]
    have hh := List.nodup_cons.1 h
    exact List.nodup_cons.2 ⟨fun hm => hh.1 (mem_of_mem_dropLast' _ _ hm), nodup_dropLast (b :: l) hh.2⟩

/-- **`onCycleB` decides `OnCycle`.** -/
theorem onCycleB_complete (g : Graph) (n : Node) (h : OnCycle g n) : onCycleB g n = true := by
  obtain ⟨m, e, r⟩ := h
  obtain ⟨p, hc, hl, hn⟩ := simple_path r
  have hlen : p.length ≤ g.length := by
    have h1 : ((m :: p).dropLast).length ≤ (g.map (·.1)).length :=
      nodup_length_le _ _ (nodup_dropLast _ hn) (chain_sources p m hc)
    simpa using h1
  have := chain_found p m (children g n) g.length n hc e hlen hl
  unfold onCycleB
  simpa using this

theorem onCycleB_iff (g : Graph) (n : Node) : onCycleB g n = true ↔ OnCycle g n :=
  ⟨onCycleB_sound g n, onCycleB_complete g n⟩

/-- so `exact` (what the harness and the driver evaluate) says what it is meant to say: every answer of the memo is `True` exactly on a cycle -/
theorem exact_iff (g : Graph) (c : Cache) : exact g c = true ↔ ∀ p ∈ c, (p.2 = true ↔ OnCycle g p.1) := by
  unfold exact
  rw [List.all_eq_true]
  constructor
  · intro h p hp
    have := h p hp
    rw [← onCycleB_iff]
    cases hb : p.2 <;> cases ho : onCycleB g p.1 <;> simp [hb, ho] at this ⊢
  · intro h p hp
    have := h p hp
    rw [← onCycleB_iff] at this
    cases hb : p.2 <;> cases ho : onCycleB g p.1 <;> simp [hb, ho] at this ⊢

end Api.Rec
