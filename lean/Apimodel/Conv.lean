/-!
# C12: conversions compose — resolution order and locality

A small model of `ConversionsVisitor.visit` / `_visit_conversion`: at a class, a *dynamic* conversion that applies to it is
used (and consumed), otherwise the *registered* conversions of the class, otherwise the class itself; `identity` bypasses
the registered ones; several deserializers are tried in registration order; a dynamic conversion is kept through
containers and unions and dropped at object fields.  Converters, the data and the behaviour of source types are
parameters.
-/
namespace Api.Conv

abbrev D := Nat            -- opaque data
abbrev V := Nat            -- opaque values
abbrev Cls := Nat

inductive Out where
  | ok (v : V) | invalid (msgs : List (List Nat × String))
  deriving DecidableEq, Repr

inductive Ty where
  | src (s : Nat)                       -- a source type: its deserialization is a parameter
  | cls (c : Cls)                       -- a class that may have conversions
  | list (t : Ty) | opt (t : Ty)
  | obj (c : Cls) (fields : List Ty)
  deriving Repr

/-- a deserializer `source -> target`; `catches`: `ValueError` is turned into a `ValidationError` -/
structure Conv where
  target : Cls
  source : Ty
  f : V → Option V              -- `none` = raises `ValueError`
  catches : Bool := true

structure World where
  /-- deserialization of source types and of plain (unconverted) classes -/
  base : Nat → D → Out
  plain : Cls → D → Out
  /-- registered deserializers per class, in registration order -/
  registered : Cls → List Conv
  /-- elements of an array datum / is the datum null / field data of an object datum -/
  elems : D → Option (List D)
  isNull : D → Bool
  fieldData : D → Nat → D
  /-- assembling values (uninterpreted) -/
  mkList : List V → V
  mkObj : Cls → List V → V
  none_ : V

inductive Dyn where
  | none | identity | conv (c : Conv)

def prefix_ (i : Nat) : Out → Out
  | .ok v => .ok v
  | .invalid ms => .invalid (ms.map (fun m => (i :: m.1, m.2)))

def apply (c : Conv) : Out → Out
  | .ok v => match c.f v with
      | some w => .ok w
      | none => .invalid [([], "ValueError")]       -- (a non-catching converter lets the exception escape: not modelled)
  | .invalid ms => .invalid ms

def merge (a b : Out) : Out :=
  match a, b with
  | .ok v, _ => .ok v
  | .invalid _, .ok v => .ok v
  | .invalid m1, .invalid m2 => .invalid (m1 ++ m2)

/-- first accepting alternative, errors merged -/
def tryAll (fs : List (D → Out)) (d : D) : Out :=
  match fs with
  | [] => .invalid []
  | [f] => f d
  | f :: rest => merge (f d) (tryAll rest d)

def collect (f : D → Out) : Nat → List D → List V × List (List Nat × String)
  | _, [] => ([], [])
  | i, x :: xs =>
    let (vs, es) := collect f (i + 1) xs
    match prefix_ i (f x) with
    | .ok v => (v :: vs, es)
    | .invalid ms => (vs, ms ++ es)

/-- the registered deserializers, in registration order (`k` deserializes through one of them) -/
def atRegistered (plain : D → Out) (k : Conv → D → Out) : List Conv → D → Out
  | [], d => plain d
  | [cv], d => k cv d
  | cv :: rest, d => merge (k cv d) (atRegistered plain k rest d)

/-- the fields of an object, each under its index (`k` deserializes one field type) -/
def fieldsD (w : World) (k : Ty → D → Out) : List Ty → Nat → D → List V × List (List Nat × String)
  | [], _, _ => ([], [])
  | t :: ts, i, d =>
    let r := fieldsD w k ts (i + 1) d
    match prefix_ i (k t (w.fieldData d i)) with
    | .ok v => (v :: r.1, r.2)
    | .invalid ms => (r.1, ms ++ r.2)

/-- `fuel` bounds the nesting of types and the chains of conversions (a source may itself be a converted class) -/
def deser (w : World) : Nat → Dyn → Ty → D → Out
  | 0, _, _, _ => .invalid [([], "fuel")]
  | _ + 1, _, .src s, d => w.base s d
  | n + 1, dyn, .cls c, d =>
      match dyn with
      | .identity => w.plain c d
      | .conv cv => if cv.target = c then apply cv (deser w n .none cv.source d)
                    else atRegistered (w.plain c) (fun cv d => apply cv (deser w n .none cv.source d)) (w.registered c) d
      | .none => atRegistered (w.plain c) (fun cv d => apply cv (deser w n .none cv.source d)) (w.registered c) d
  | n + 1, dyn, .list t, d =>
      match w.elems d with
      | some xs => let r := collect (fun x => deser w n dyn t x) 0 xs
                   if r.2.isEmpty then .ok (w.mkList r.1) else .invalid r.2
      | none => .invalid [([], "expected array")]
  | n + 1, dyn, .opt t, d => if w.isNull d then .ok w.none_ else deser w n dyn t d
  | n + 1, _, .obj c fs, d =>
      -- fields of a nested object: the dynamic conversion is dropped
      let r := fieldsD w (fun t x => deser w n .none t x) fs 0 d
      if r.2.isEmpty then .ok (w.mkObj c r.1) else .invalid r.2
termination_by structural n => n

/-- **C12, registered square.** With one registered deserializer `f : S -> C`, `deserialize(C, d)` is
    `f(deserialize(S, d))`: same rejections with the same errors, `ValueError` as a `ValidationError` at the datum. -/
theorem C12_registered_square (w : World) (n : Nat) (c : Cls) (cv : Conv) (h : w.registered c = [cv]) (d : D) :
    deser w (n + 1) .none (.cls c) d = apply cv (deser w n .none cv.source d) := by
  simp only [deser, h, atRegistered]

/-- several deserializers are tried in registration order, the first accepting one wins, errors are merged -/
theorem C12_registration_order (w : World) (n : Nat) (c : Cls) (cv1 cv2 : Conv) (h : w.registered c = [cv1, cv2]) (d : D) :
    deser w (n + 1) .none (.cls c) d
      = merge (apply cv1 (deser w n .none cv1.source d)) (apply cv2 (deser w n .none cv2.source d)) := by
  simp only [deser, h, atRegistered]

/-- **dynamic square**: a dynamic conversion that targets the class replaces the registered ones and is consumed -/
theorem C12_dynamic_square (w : World) (n : Nat) (cv : Conv) (d : D) :
    deser w (n + 1) (.conv cv) (.cls cv.target) d = apply cv (deser w n .none cv.source d) := by
  simp only [deser, if_true]

/-- `identity` bypasses the registered conversions -/
theorem C12_identity (w : World) (n : Nat) (c : Cls) (d : D) :
    deser w (n + 1) .identity (.cls c) d = w.plain c d := by
  simp only [deser]

/-- **locality**: a dynamic conversion does not reach into the fields of a nested object -/
theorem C12_locality (w : World) (n : Nat) (dyn : Dyn) (c : Cls) (fs : List Ty) (d : D) :
    deser w n dyn (.obj c fs) d = deser w n .none (.obj c fs) d := by
  cases n <;> simp only [deser]

/-- ... but it reaches through `Optional` -/
theorem C12_through_optional (w : World) (n : Nat) (dyn : Dyn) (t : Ty) (d : D) (h : w.isNull d = false) :
    deser w (n + 1) dyn (.opt t) d = deser w n dyn t d := by
  simp [deser, h]

/-- ... and through arrays: the element results, each under its index -/
theorem C12_through_list (w : World) (n : Nat) (dyn : Dyn) (t : Ty) (d : D) (xs : List D) (h : w.elems d = some xs) :
    deser w (n + 1) dyn (.list t) d =
      (let r := collect (fun x => deser w n dyn t x) 0 xs
       if r.2.isEmpty then .ok (w.mkList r.1) else .invalid r.2) := by
  simp only [deser, h]

/-- a conversion rejects exactly what its source rejects, plus the converter's `ValueError` -/
theorem C12_rejects (cv : Conv) (r : Out) :
    (∃ ms, apply cv r = .invalid ms) ↔ (∃ ms, r = .invalid ms) ∨ (∃ v, r = .ok v ∧ cv.f v = none) := by
  cases r with
  | ok v =>
    cases hf : cv.f v <;> simp [apply, hf]
  | invalid ms => simp [apply]

/-! ## serialization side: which serializer a class gets (`default_serialization`: walk up the MRO) -/

structure SerReg where
  /-- the direct base class (single inheritance suffices for the law) -/
  parent : Cls → Option Cls
  /-- registered serializer of a class: (converter id, `inherited` flag) -/
  serializer : Cls → Option (Nat × Bool)

/-- the serializer used for a value whose class is `c`: its own, or the closest ancestor's registered with
    `inherited=True`; an ancestor's serializer registered with `inherited=False` applies to that ancestor only and
    does *not* stop the walk (`fuel` bounds the height of the hierarchy) -/
def serializerOf (r : SerReg) : Nat → Cls → Bool → Option Nat
  | 0, _, _ => none
  | n + 1, c, own =>
      match r.serializer c with
      | some (k, inh) => if own || inh then some k else
          (match r.parent c with | some p => serializerOf r n p false | none => none)
      | none => match r.parent c with | some p => serializerOf r n p false | none => none

/-- a class with its own serializer uses it -/
theorem C12_own_serializer (r : SerReg) (n : Nat) (c : Cls) (k : Nat) (inh : Bool) (h : r.serializer c = some (k, inh)) :
    serializerOf r (n + 1) c true = some k := by
  simp [serializerOf, h]

/-- **inheritance**: a subclass without a serializer gets what its parent's subclasses inherit -/
theorem C12_inherits (r : SerReg) (n : Nat) (c p : Cls) (hs : r.serializer c = none) (hp : r.parent c = some p) (own : Bool) :
    serializerOf r (n + 1) c own = serializerOf r n p false := by
  simp [serializerOf, hs, hp]

/-- a serializer registered with `inherited=False` on an intermediate class is skipped by the subclasses of that class:
    they inherit from further up -/
theorem C12_not_inherited_is_skipped (r : SerReg) (n : Nat) (b a : Cls) (k : Nat)
    (hb : r.serializer b = some (k, false)) (hp : r.parent b = some a) :
    serializerOf r (n + 1) b false = serializerOf r n a false := by
  simp [serializerOf, hb, hp]

/-- the three-level witness: `A` (inherited serializer 1) <- `B` (own serializer 2, `inherited=False`) <- `C` (none):
    `B` uses 2, `C` uses 1 -/
def regABC : SerReg :=
  { parent := fun c => if c = 2 then some 1 else if c = 1 then some 0 else none,
    serializer := fun c => if c = 0 then some (1, true) else if c = 1 then some (2, false) else none }
example : serializerOf regABC 5 1 true = some 2 ∧ serializerOf regABC 5 2 true = some 1 ∧ serializerOf regABC 5 0 true = some 1 := by decide

end Api.Conv
