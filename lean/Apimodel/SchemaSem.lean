import Apimodel.Schema
import Apimodel.Deser
/-! # JSON Schema 2020-12 validation semantics for the emitted keywords, and JSON rendering -/
namespace Api

/-- JSON equality on scalars (`1 == 1.0`, `1 != true`) -/
def jsonEqLit (d : Py) (l : Lit) : Bool :=
  match d, l with
  | .null, .null => true
  | .bool a, .bool b => a == b
  | .str a, .str b => a == b
  | .int a, .int b => a == b
  | .int a, .float f => (Num.int a).eq (.flt f)
  | .float f, .int b => (Num.flt f).eq (.int b)
  | .float f, .float g => f.eq g
  | _, _ => false

def Py.num? : Py → Option Num
  | .int i => some (.int i)
  | .float f => some (.flt f)
  | _ => Option.none

def typeMatches (d : Py) (t : JT) : Bool :=
  match d, t with
  | .null, .null => true
  | .bool _, .boolean => true
  | .int _, .integer => true
  | .int _, .number => true
  | .float _, .number => true
  | .float (.fin q), .integer => Rat.isInt q
  | .str _, .string => true
  | .list _, .array => true
  | .dict _, .object => true
  | _, _ => false

mutual
/-- structural JSON equality for `uniqueItems` -/
def jsonEq : Py → Py → Bool
  | .null, .null => true
  | .bool a, .bool b => a == b
  | .str a, .str b => a == b
  | .int a, .int b => a == b
  | .int a, .float f => (Num.int a).eq (.flt f)
  | .float f, .int b => (Num.flt f).eq (.int b)
  | .float f, .float g => f.eq g
  | .list a, .list b => jsonEqL a b
  | .dict a, .dict b => a.length == b.length && jsonEqK a b
  | _, _ => false
termination_by structural a => a
def jsonEqL : List Py → List Py → Bool
  | [], [] => true
  | a :: as, b :: bs => jsonEq a b && jsonEqL as bs
  | _, _ => false
termination_by structural as => as
/-- every item of the first object has an equal item under the same key in the second -/
def jsonEqK : List (String × Py) → List (String × Py) → Bool
  | [], _ => true
  | (k, v) :: kvs, other => other.any (fun kv => kv.1 == k && jsonEq v kv.2) && jsonEqK kvs other
termination_by structural kvs => kvs
end

def allDistinct : List Py → Bool
  | [] => true
  | x :: xs => !xs.any (fun y => jsonEq x y) && allDistinct xs

/-- the constraint keywords, applied to the JSON class they concern -/
def consOk (c : Constraints) (d : Py) : Bool :=
  (match d.num? with | some x => (c.numErrors x).isEmpty | Option.none => true) &&
  (match d with | .str s => (c.strErrors s).isEmpty | _ => true) &&
  (match d with
   | .list xs =>
      (match c.minItems with | some n => n ≤ xs.length | Option.none => true) &&
      (match c.maxItems with | some n => xs.length ≤ n | Option.none => true) &&
      (!c.unique || allDistinct xs)
   | _ => true) &&
  (match d with | .dict kvs => (c.dictErrors kvs.length).isEmpty | _ => true)

def onListB (d : Py) (k : List Py → Bool) : Bool := match d with | .list xs => k xs | _ => true
def onDictB (d : Py) (k : List (String × Py) → Bool) : Bool := match d with | .dict kvs => k kvs | _ => true
def propOk (o : Option Py) (p : Py → Bool) : Bool := match o with | Option.none => true | some x => p x
def preLen (pre : Option (List Sch)) : Nat := match pre with | Option.none => 0 | some l => l.length

mutual
def validates : Sch → Py → Bool
  | .mk ty const enum cons items pre props req addl pats anyOf _, d =>
    (ty.isEmpty || ty.any (typeMatches d)) &&
    (match const with | Option.none => true | some l => jsonEqLit d l) &&
    (enum.isEmpty || enum.any (jsonEqLit d)) &&
    consOk cons d &&
    onListB d (fun xs => vPre pre xs && vItems items (xs.drop (preLen pre))) &&
    onDictB d (fun kvs =>
      vProps props kvs && req.all (fun r => (lookupKey kvs r).isSome) &&
      vPats pats kvs &&
      vAddl addl (kvs.filter (fun kv => !(propNames props).contains kv.1 && !(patList pats).any (fun p => p.isMatch kv.1)))) &&
    vAnyO anyOf d
termination_by structural s => s
def vPre : Option (List Sch) → List Py → Bool
  | Option.none, _ => true
  | some l, xs => vZip l xs
termination_by structural o => o
def vZip : List Sch → List Py → Bool
  | s :: ss, x :: xs => validates s x && vZip ss xs
  | _, _ => true
termination_by structural ss => ss
def vItems : Option (Bool ⊕ Sch) → List Py → Bool
  | Option.none, _ => true
  | some (.inl b), rest => b || rest.isEmpty
  | some (.inr s), rest => rest.all (fun x => validates s x)
termination_by structural i => i
def vProps : List (String × Sch) → List (String × Py) → Bool
  | [], _ => true
  | (k, s) :: ps, kvs => propOk (lookupKey kvs k) (fun x => validates s x) && vProps ps kvs
termination_by structural ps => ps
def propNames : List (String × Sch) → List String
  | [] => []
  | (k, _) :: ps => k :: propNames ps
termination_by structural ps => ps
def vPats : List (Pat × Sch) → List (String × Py) → Bool
  | [], _ => true
  | (p, s) :: ps, kvs => (kvs.filter (fun kv => p.isMatch kv.1)).all (fun kv => validates s kv.2) && vPats ps kvs
termination_by structural ps => ps
def patList : List (Pat × Sch) → List Pat
  | [] => []
  | (p, _) :: ps => p :: patList ps
termination_by structural ps => ps
def vAddl : Option (Bool ⊕ Sch) → List (String × Py) → Bool
  | Option.none, _ => true
  | some (.inl b), rest => b || rest.isEmpty
  | some (.inr s), rest => rest.all (fun kv => validates s kv.2)
termination_by structural a => a
def vAnyO : List Sch → Py → Bool
  | [], _ => true
  | s :: ss, d => validates s d || vAny ss d
termination_by structural ss => ss
def vAny : List Sch → Py → Bool
  | [], _ => false
  | s :: ss, d => validates s d || vAny ss d
termination_by structural ss => ss
end

/-! ## rendering as the `dict` the real builder returns (keys in a canonical order) -/
def numPy : Num → Py
  | .int i => .int i
  | .flt f => .float f

def optKey {α} (k : String) (o : Option α) (f : α → Py) : List (String × Py) :=
  match o with | Option.none => [] | some a => [(k, f a)]

def consKeys (c : Constraints) : List (String × Py) :=
  optKey "minimum" c.min numPy ++ optKey "maximum" c.max numPy ++
  optKey "exclusiveMinimum" c.excMin numPy ++ optKey "exclusiveMaximum" c.excMax numPy ++
  optKey "multipleOf" c.multOf numPy ++
  optKey "minLength" c.minLen (fun n => .int n) ++ optKey "maxLength" c.maxLen (fun n => .int n) ++
  optKey "pattern" c.pattern (fun p => .str p.source) ++
  optKey "minItems" c.minItems (fun n => .int n) ++ optKey "maxItems" c.maxItems (fun n => .int n) ++
  (if c.unique then [("uniqueItems", .bool true)] else []) ++
  optKey "minProperties" c.minProps (fun n => .int n) ++ optKey "maxProperties" c.maxProps (fun n => .int n)

def typePy (ts : List JT) : List (String × Py) :=
  match ts with
  | [] => []
  | [t] => [("type", .str t.name)]
  | ts => [("type", .list (ts.map (fun t => .str t.name)))]

mutual
/-- `json_schema()`: default-valued keywords are dropped -/
def Sch.toPy : Sch → Py
  | .mk ty const enum cons items pre props req addl pats anyOf dflt =>
    .dict (typePy ty ++
      optKey "const" const litToPy ++
      (if enum.isEmpty then [] else [("enum", .list (enum.map litToPy))]) ++
      consKeys cons ++
      boolOrSchKey "items" items ++
      preKey pre ++
      (if props.isEmpty then [] else [("properties", .dict (propsPy props))]) ++
      (if req.isEmpty then [] else [("required", .list (req.map .str))]) ++
      boolOrSchKey "additionalProperties" addl ++
      (if pats.isEmpty then [] else [("patternProperties", .dict (patsPy pats))]) ++
      (if anyOf.isEmpty then [] else [("anyOf", .list (listPy anyOf))]) ++
      optKey "default" dflt id)
termination_by structural s => s
/-- `True` and `{}` are the default value of `items` / `additionalProperties`: dropped -/
def boolOrSchKey (k : String) : Option (Bool ⊕ Sch) → List (String × Py)
  | Option.none => []
  | some (.inl b) => if b then [] else [(k, .bool false)]
  | some (.inr s) => if s.isEmpty then [] else [(k, s.toPy)]
termination_by structural o => o
def preKey : Option (List Sch) → List (String × Py)
  | Option.none => []
  | some l => if l.isEmpty then [] else [("prefixItems", .list (listPy l))]
termination_by structural o => o
def listPy : List Sch → List Py
  | [] => []
  | s :: ss => s.toPy :: listPy ss
termination_by structural ss => ss
def propsPy : List (String × Sch) → List (String × Py)
  | [] => []
  | (k, s) :: ps => (k, s.toPy) :: propsPy ps
termination_by structural ps => ps
def patsPy : List (Pat × Sch) → List (String × Py)
  | [] => []
  | (p, s) :: ps => (p.source, s.toPy) :: patsPy ps
termination_by structural ps => ps
end

end Api
