import Apimodel.RoundTripThm
import Apimodel.ErrorsThm
/-!
# C01 (image): an accepted datum is turned into the value the type prescribes
Index-keyed fragment, proved for the copying methods and transported to `no_copy=True`.
-/
namespace Api

def zipImage (f : Ty → Py → Val) : List Ty → List Py → List Val
  | t :: ts, x :: xs => f t x :: zipImage f ts xs
  | _, _ => []

mutual
/-- the value prescribed by the data model (runtime classes included) -/
def image : Ty → Py → Val
  | .float, d => match d with
      | .int i => (match intToFlt i with | some f => .float f | Option.none => .null)
      | d => asVal d
  | .list t, d => match d with | .list xs => .list (xs.map (fun x => image t x)) | d => asVal d
  | .vtuple t, d => match d with | .list xs => .tuple (xs.map (fun x => image t x)) | d => asVal d
  | .tuple ts, d => match d with | .list xs => .tuple (imageZip ts xs) | d => asVal d
  | .newtype _ t, d => image t d
  | .ann _ t, d => image t d
  | _, d => asVal d
termination_by structural t => t
def imageZip : List Ty → List Py → List Val
  | t :: ts, x :: xs => image t x :: imageZip ts xs
  | _, _ => []
termination_by structural ts => ts
end

theorem collect_vals_ok (f : Py → Outcome Val) : ∀ (xs : List Py) (i : Nat),
    (collect f i xs).crash = Option.none → (collect f i xs).errs = [] →
    All2 (fun x v => f x = .ok v) xs (collect f i xs).vals
  | [], _, _, _ => .nil
  | x :: xs, i, hc, he => by
    rw [collect] at hc he ⊢
    cases hr : f x with
    | crash c => rw [hr] at hc; simp [stepAcc] at hc
    | invalid e => rw [hr] at he; simp only [stepAcc] at he; exact absurd he (setChild_ne_nil _ _ _)
    | ok v =>
      rw [hr] at hc he
      simp only [stepAcc] at hc he ⊢
      exact .cons hr (collect_vals_ok f xs (i+1) hc he)

theorem finish_ok {own acc} {mk : List Val → Outcome Val} {v : Val} (h : finish own acc mk = .ok v) :
    acc.crash = Option.none ∧ acc.errs = [] ∧ mk acc.vals = .ok v := by
  unfold finish at h
  cases hc : acc.crash with
  | some c => rw [hc] at h; cases h
  | none =>
    rw [hc] at h
    cases own with
    | none => cases h
    | some rs =>
      cases rs with
      | cons r rs => cases h
      | nil =>
        simp only at h
        split at h
        · next he => exact ⟨rfl, by simpa using he, h⟩
        · cases h

theorem runTuple_vals_ok : ∀ (ms : List Meth) (xs : List Py) (i : Nat), ms.length = xs.length →
    (runTuple ms i xs).crash = Option.none → (runTuple ms i xs).errs = [] →
    All2 (fun (mx : Meth × Py) v => run mx.1 mx.2 = .ok v) (ms.zip xs) (runTuple ms i xs).vals
  | [], [], _, _, _, _ => by rw [runTuple]; all_goals first | exact .nil | (intros; simp_all)
  | m :: ms, x :: xs, i, hl, hc, he => by
    rw [runTuple] at hc he ⊢
    cases hr : run m x with
    | crash c => rw [hr] at hc; simp [stepAcc] at hc
    | invalid e => rw [hr] at he; simp only [stepAcc] at he; exact absurd he (setChild_ne_nil _ _ _)
    | ok v =>
      rw [hr] at hc he
      simp only [stepAcc] at hc he ⊢
      exact .cons hr (runTuple_vals_ok ms xs (i+1) (by simpa using hl) hc he)
  | [], _ :: _, _, hl, _, _ => by simp at hl
  | _ :: _, [], _, hl, _, _ => by simp at hl

theorem all2_map {f : Py → Outcome Val} {g : Py → Val} : ∀ {xs : List Py} {vs : List Val},
    All2 (fun x v => f x = .ok v) xs vs → (∀ x v, f x = .ok v → v = g x) → vs = xs.map g
  | _, _, .nil, _ => rfl
  | _, _, .cons h rest, hg => by rw [List.map_cons, hg _ _ h, all2_map rest hg]

theorem run_list_image {o : DOpts} {c : Constraints} {m : Meth} {d : Py} {v : Val}
    (h : run (.list c m) d = .ok v) : ∃ xs vals, d = .list xs ∧ v = .list vals ∧
      All2 (fun x w => run m x = .ok w) xs vals := by
  rw [run] at h
  cases d <;> try (simp [onList, badType, Py.jclass?] at h; done)
  case list xs =>
    simp only [onList] at h
    obtain ⟨hc, he, hm⟩ := finish_ok h
    cases hm
    exact ⟨xs, _, rfl, rfl, collect_vals_ok _ xs 0 hc he⟩

/-- **C01 (image), index-keyed fragment, copying methods.** -/
theorem image_nocopy_off (o : DOpts) (ho : OptsOk o) (hnc : o.noCopy = false) :
    (∀ cs t, t.efrag = true → ∀ d v, run (compile o cs t) d = .ok v → v = image t d) ∧
    (∀ (fs : List (FieldInfo × Ty)), True) ∧
    (∀ cs ts, efragL ts = true → ∀ xs vs,
        All2 (fun (mx : Meth × Py) v => run mx.1 mx.2 = .ok v) ((compileL o cs ts).zip xs) vs →
        (compileL o cs ts).length = xs.length → vs = imageZip ts xs) := by
  have hq1 : o.quirks.floatAcceptsBool = false := by rw [ho.quirks]; rfl
  have hq2 : o.quirks.tupleDropsErrors = false := by rw [ho.quirks]; rfl
  have hsel : ∀ c m, listSel o c m = .list c m := by intro c m; unfold listSel; simp [hnc]
  apply compile.mutual_induct
  · intro cs _ d v h; rw [compile, run] at h
    cases d <;> simp [runNone, badType, Py.jclass?] at h
    subst h; rfl
  · intro cs _ d v h; rw [compile, run] at h
    cases d <;> simp [runBool, badType, Py.jclass?] at h
    subst h; rfl
  · intro cs hh _ d v h; rw [compile, if_pos hh, run] at h
    cases d <;> try (simp [runInt, badType, Py.jclass?] at h; done)
    exact constrained_ok h
  · intro cs hh _ d v h; rw [compile, if_neg hh, run] at h
    cases d <;> try (simp [runInt, badType, Py.jclass?] at h; done)
    simp only [runInt] at h; rw [constrained_ok h]; rfl
  · intro cs hh _ d v h; rw [compile, if_pos hh, hq1, run] at h
    cases d <;> try (simp [runFloat, badType, Py.jclass?] at h; done)
    case float f => exact constrained_ok h
    case int i =>
      simp only [runFloat, intAsFloat] at h
      rw [image]
      cases hi : intToFlt i with
      | none => rw [hi] at h; cases h
      | some f => rw [hi] at h; exact constrained_ok h
  · intro cs hh _ d v h; rw [compile, if_neg hh, hq1, run] at h
    cases d <;> try (simp [runFloat, badType, Py.jclass?] at h; done)
    case float f => simp only [runFloat] at h; rw [constrained_ok h]; rfl
    case int i =>
      simp only [runFloat, intAsFloat] at h
      rw [image]
      cases hi : intToFlt i with
      | none => rw [hi] at h; cases h
      | some f => rw [hi] at h; exact constrained_ok h
  · intro cs hh _ d v h; rw [compile, if_pos hh, run] at h
    cases d <;> try (simp [runStr, badType, Py.jclass?] at h; done)
    exact constrained_ok h
  · intro cs hh _ d v h; rw [compile, if_neg hh, run] at h
    cases d <;> try (simp [runStr, badType, Py.jclass?] at h; done)
    simp only [runStr] at h; rw [constrained_ok h]; rfl
  · intro cs _ d v h; rw [compile, run] at h
    cases d <;> first
      | exact constrained_ok h
      | (simp only [runAny] at h; cases h; rfl)
      | (simp only [runAny] at h; split at h <;> first | exact constrained_ok h | cases h)
  · -- list
    intro cs t ih he d v h
    rw [Ty.efrag] at he
    rw [compile, hsel] at h
    obtain ⟨xs, vals, rfl, rfl, hall⟩ := run_list_image (o := o) h
    rw [image, all2_map hall (fun x w hw => ih he x w hw)]
  · intro cs t _ he; simp [Ty.efrag] at he
  · intro cs t _ he; simp [Ty.efrag] at he
  · -- vtuple
    intro cs t ih he d v h
    rw [Ty.efrag] at he
    rw [compile, hsel, run] at h
    cases hr : run (.list cs (compile o {} t)) d with
    | invalid e => rw [hr] at h; cases h
    | crash c => rw [hr] at h; cases h
    | ok w =>
      rw [hr] at h
      obtain ⟨xs, vals, rfl, rfl, hall⟩ := run_list_image (o := o) hr
      simp only [mapVal, listToTuple] at h; cases h
      rw [image, all2_map hall (fun x w hw => ih he x w hw)]
  · -- tuple
    intro cs ts ih he d v h
    rw [Ty.efrag] at he
    rw [compile, hq2, run] at h
    cases d <;> try (simp [onList, badType, Py.jclass?] at h; done)
    case list xs =>
      simp only [onList] at h
      unfold tupleBody at h
      split at h
      · cases h
      · split at h
        · cases h
        · next h1 h2 =>
          simp only [Bool.false_eq_true, if_false] at h
          obtain ⟨hc, herr, hm⟩ := finish_ok h
          cases hm
          have hlen : (compileL o {} ts).length = xs.length := by omega
          rw [image, ih he xs _ (runTuple_vals_ok _ xs 0 hlen hc herr) hlen]
  · intro cs k v' _ _ he; simp [Ty.efrag] at he
  · intro cs ts _ he; simp [Ty.efrag] at he
  · intro cs vs he; simp [Ty.efrag] at he
  · intro cs c ms he; simp [Ty.efrag] at he
  · intro cs n t ih he d v h; rw [Ty.efrag] at he; rw [compile] at h; rw [image]; exact ih he d v h
  · intro cs c t ih he d v h; rw [Ty.efrag] at he; rw [compile] at h; rw [image]; exact ih he d v h
  · intro cs ci fs _ he; simp [Ty.efrag] at he
  · intro cs _ xs vs hall hl
    rw [compileL] at hall hl
    cases xs with
    | nil => cases hall; rw [imageZip]; all_goals (intros; simp_all)
    | cons x xs => simp at hl
  · intro cs t ts iht ihts he xs vs hall hl
    rw [efragL, Bool.and_eq_true] at he
    rw [compileL] at hall hl
    cases xs with
    | nil => simp at hl
    | cons x xs =>
      rw [List.zip_cons_cons] at hall
      cases hall with
      | cons h rest =>
        rw [imageZip, iht he.1 x _ h, ihts he.2 xs _ rest (by simpa using hl)]
  · trivial
  · intros; trivial

/-- **C01 (image), index-keyed fragment.** Whatever value `deserialize` returns is the image of the datum. -/
theorem C01_image_partial (o : DOpts) (ho : OptsOk o) (t : Ty) (he : t.efrag = true) (hs : t.scope = true)
    (d : Py) (v : Val) (h : run (compile o {} t) d = .ok v) : v = image t d := by
  have ho' : OptsOk { o with noCopy := false } := ⟨ho.fbod, ho.quirks⟩
  apply (image_nocopy_off { o with noCopy := false } ho' rfl).1 {} t he d v
  cases hn : o.noCopy
  · have : o = { o with noCopy := false } := by cases o; simp_all
    rw [← this]; exact h
  · have : o = { o with noCopy := true } := by cases o; simp_all
    rw [this, (noCopy_independent o).1 {} t hs d] at h; exact h

end Api
