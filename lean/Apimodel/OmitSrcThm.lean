import Apimodel.Ser
import Apimodel.SerSchema
import Apimodel.Generated.Omit
/-! Source tie of the omission rules of object serialization (C04, and `required` of the serialization schema, C07).

`Generated/Omit.lean` holds, regenerated from the working tree on every run, the Boolean conditions of
`ComplexField.__post_init__` / `ComplexField.update_result` (serialization/methods.py), of the branch of
`SerializationMethodVisitor.object` that builds a `ComplexField` together with the flags it passes (serialization/__init__.py), and of
`ObjectField.skippable` (objects/fields.py), in their written structure.  Here the atoms are read by the quantities of the model (scope of
the model: no skip metadata, no `Undefined` in the type, no `none_as_undefined`, no fields-set tracking) and the composition
visitor flags -> `update_result` is proved equal to the model's `omitted` / `serFieldStep` / `skippable`.  A change of one of these conditions
in the source changes the generated term and the theorems below no longer check. -/
namespace Api
open BExpr

/-- what the visitor knows about one field -/
structure FieldCtx where
  td : Bool            -- the class is a TypedDict
  required : Bool      -- `field.required`
  optional : Bool      -- `is_union_of(field.type, NoneType)`
  hasD : Bool          -- a default is declared (dataclass / NamedTuple field)
  dnull : Bool         -- ... and it is `None`

/-- `field_default = ... if field.required else field.get_default()`; every TypedDict key is declared with default `Undefined` -/
def FieldCtx.fdUndefined (c : FieldCtx) : Bool := c.td && !c.required
def FieldCtx.fdNone (c : FieldCtx) : Bool := !c.td && !c.required && c.dnull

/-- atoms of `ObjectField.skippable(default, none)` -/
def skTbl (en ed : Bool) (c : FieldCtx) : List (String × Bool) :=
  [("self.skip.serialization_if", false), ("is_union_of(self.type, UndefinedType)", false),
   ("self.default_factory is not None", !c.required), ("self.skip.serialization_default", false), ("default", ed),
   ("self.none_as_undefined", false), ("none", en), ("is_union_of(self.type, NoneType)", c.optional)]

/-- atoms of `SerializationMethodVisitor.object` (the ComplexField branch and its arguments) -/
def visitTbl (en ed : Bool) (c : FieldCtx) : List (String × Bool) :=
  [("is_union_of(field.type, UndefinedType)", false), ("field_default is Undefined", c.fdUndefined),
   ("is_union_of(field.type, NoneType)", c.optional), ("self.exclude_none", en), ("field.none_as_undefined", false),
   ("field_default is None", c.fdNone), ("self.exclude_defaults", ed), ("field.skip.serialization_default", false),
   ("field_default not in (None, Undefined)", !(c.fdNone || c.fdUndefined)),
   ("typed_dict", c.td), ("exclude_unset", false), ("field_alias is None", false), ("field.required", c.required),
   ("field.skippable(self.exclude_defaults, self.exclude_none)", evalT (skTbl en ed c) Generated.fieldSkippable)]

/-- the flags stored in the `ComplexField` -/
def flagsTbl (en ed : Bool) (c : FieldCtx) : List (String × Bool) :=
  [("self.skip_if", false),
   ("self.undefined", evalT (visitTbl en ed c) Generated.visitUndefined),
   ("self.skip_none", evalT (visitTbl en ed c) Generated.visitSkipNone),
   ("self.skip_default", evalT (visitTbl en ed c) Generated.visitSkipDefault)]

/-- atoms of the emission test of `ComplexField.update_result` for a value (`vnull`: it is None; `veq`: it equals the stored default) -/
def emitTbl (en ed : Bool) (c : FieldCtx) (vnull veq : Bool) : List (String × Bool) :=
  flagsTbl en ed c ++
  [("self.skippable", evalT (flagsTbl en ed c) Generated.omitSkippable), ("self.skip_if is not None", false), ("self.skip_if(value)", false),
   ("value is Undefined", false), ("value is None", vnull), ("value == self.default_value", veq)]

/-- atoms of the presence test of `ComplexField.update_result` -/
def presentTbl (en ed : Bool) (c : FieldCtx) (present : Bool) : List (String × Bool) :=
  [("self.typed_dict", evalT (visitTbl en ed c) Generated.visitTypedDict), ("self.required", evalT (visitTbl en ed c) Generated.visitRequired),
   ("self.name in obj", present), ("self.exclude_unset", evalT (visitTbl en ed c) Generated.visitExcludeUnset),
   ("self.name in getattr(obj, FIELDS_SET_ATTR)", true)]

/-- the Boolean core of the model's `omitted` -/
def omittedB (en ed optional hasD dnull vnull veq : Bool) : Bool :=
  (((optional && en) || (dnull && ed)) && vnull) || ((ed && hasD && !dnull) && veq)

theorem omitted_eq_omittedB (o : SOpts) (f : SField) (v : Val) :
    omitted o f v = omittedB o.excludeNone o.excludeDefaults f.optional f.dflt.isSome (f.dflt == some (.lit .null)) (v matches .null)
      (match f.dflt with | some d => v.pyEq d.toPyVal | Option.none => false) := by
  rfl

/-- every atom of every extracted condition is read by its table: nothing is evaluated by default -/
theorem omit_atoms_covered (en ed : Bool) (c : FieldCtx) (vnull veq present : Bool) :
    covered (skTbl en ed c) Generated.fieldSkippable = true ∧
    covered (visitTbl en ed c) Generated.visitComplex = true ∧ covered (visitTbl en ed c) Generated.visitUndefined = true ∧
    covered (visitTbl en ed c) Generated.visitSkipNone = true ∧ covered (visitTbl en ed c) Generated.visitSkipDefault = true ∧
    covered (visitTbl en ed c) Generated.visitTypedDict = true ∧ covered (visitTbl en ed c) Generated.visitRequired = true ∧
    covered (visitTbl en ed c) Generated.visitExcludeUnset = true ∧
    covered (flagsTbl en ed c) Generated.omitSkippable = true ∧
    covered (emitTbl en ed c vnull veq) Generated.omitEmit = true ∧
    covered (presentTbl en ed c present) Generated.omitPresent = true := by
  refine ⟨?_, ?_, ?_, ?_, ?_, ?_, ?_, ?_, ?_, ?_, ?_⟩ <;> rfl

/-- the strategies of the other branches write the key unconditionally -/
theorem other_strategies_always_write :
    Generated.visitOtherStrategies = ["IdentityField", "SimpleField"] ∧
    Generated.alwaysIdentityField = .atom "True" ∧ Generated.alwaysSimpleField = .atom "True" ∧
    Generated.visitFieldDefaultSrc = "... if field.required else field.get_default()" ∧
    Generated.visitTypedDictSrc = "is_typed_dict(cls)" := by decide

/-- emission, Boolean core: the written test of `update_result` under the flags the visitor computes is the negation of the model's
omission rule (a TypedDict key has no default in the model) -/
theorem emit_core : ∀ (td req opt hasD dnull en ed vnull veq : Bool),
    (td = false → req = !hasD) → (dnull = true → hasD = true) → ((td || !hasD) = true → veq = false) →
    evalT (emitTbl en ed ⟨td, req, opt, hasD, dnull⟩ vnull veq) Generated.omitEmit
      = !(omittedB en ed opt (!td && hasD) (!td && dnull) vnull veq) := by
  decide

/-- presence, Boolean core: a key is looked at unless it is an absent, non-required TypedDict key -/
theorem present_core : ∀ (td req opt hasD dnull en ed present : Bool),
    evalT (presentTbl en ed ⟨td, req, opt, hasD, dnull⟩ present) Generated.omitPresent = !(td && !req && !present) := by
  decide

/-- strategy, Boolean core: a field that does not get a `ComplexField` is never omitted by the model -/
theorem simple_core : ∀ (td req opt hasD dnull en ed vnull veq : Bool),
    (td = false → req = !hasD) → (dnull = true → hasD = true) →
    evalT (visitTbl en ed ⟨td, req, opt, hasD, dnull⟩) Generated.visitComplex = false →
    omittedB en ed opt (!td && hasD) (!td && dnull) vnull veq = false := by
  decide

/-- `ObjectField.skippable` as written is the model's `skippable` (serialization schema: `required = not skippable`) -/
theorem skippable_core : ∀ (req opt hasD en ed : Bool), (req = !hasD) →
    evalT (skTbl en ed ⟨false, req, opt, hasD, false⟩) Generated.fieldSkippable = ((hasD && ed) || (en && opt)) := by
  decide

end Api

namespace Api
open BExpr

/-- the visitor's view of a field of the model -/
def ctxOf (td : Bool) (f : FieldInfo) (opt : Bool) : FieldCtx :=
  ⟨td, f.required, opt, f.dflt.isSome, f.dflt == some (.lit .null)⟩

/-- the field record `serFieldStep` hands to `omitted` -/
def sfOf (td : Bool) (f : FieldInfo) (opt : Bool) : SField :=
  let sf : SField := { name := f.name, alias := f.alias, required := f.required, dflt := f.dflt, optional := opt }
  if td then { sf with dflt := Option.none } else sf

/-- `value == self.default_value` as the model reads it (`...` and `Undefined` equal no value of the model) -/
def veqOf (td : Bool) (f : FieldInfo) (opt : Bool) (v : Val) : Bool :=
  match (sfOf td f opt).dflt with | some d => v.pyEq d.toPyVal | Option.none => false

/-- the step of object serialization written with the conditions of the source -/
def serFieldStepSrc (o : SOpts) (td : Bool) (f : FieldInfo) (opt : Bool) (v? : Option Val)
    (ser : Val → Outcome Py) (rest : Outcome (List (String × Py))) : Outcome (List (String × Py)) :=
  let c := ctxOf td f opt
  match v? with
  | Option.none =>
      if evalT (presentTbl o.excludeNone o.excludeDefaults c false) Generated.omitPresent then .crash "AttributeError" else rest
  | some v =>
      if evalT (presentTbl o.excludeNone o.excludeDefaults c true) Generated.omitPresent &&
         evalT (emitTbl o.excludeNone o.excludeDefaults c (v matches .null) (veqOf td f opt v)) Generated.omitEmit
      then bindO (ser v) (fun j => bindO rest (fun js => .ok ((f.alias, j) :: js)))
      else rest

/-- C04 (source tie): the emission test of `ComplexField.update_result`, under the flags that `SerializationMethodVisitor.object`
passes, is the negation of the model's `omitted` -/
theorem omit_matches_source (o : SOpts) (td : Bool) (f : FieldInfo) (opt : Bool) (v : Val)
    (hwf : td = false → f.required = !f.dflt.isSome) :
    evalT (emitTbl o.excludeNone o.excludeDefaults (ctxOf td f opt) (v matches .null) (veqOf td f opt v)) Generated.omitEmit
      = !(omitted o (sfOf td f opt) v) := by
  rw [omitted_eq_omittedB]
  have hdn : (f.dflt == some (.lit .null)) = true → f.dflt.isSome = true := by
    intro h; have := eq_of_beq h; simp [this]
  cases td with
  | true =>
      have := emit_core true f.required opt f.dflt.isSome (f.dflt == some (.lit .null)) o.excludeNone o.excludeDefaults
        (v matches .null) (veqOf true f opt v) (by simp) hdn (by intro _; rfl)
      exact this
  | false =>
      refine emit_core false f.required opt f.dflt.isSome (f.dflt == some (.lit .null)) o.excludeNone o.excludeDefaults
        _ (veqOf false f opt v) (by intro _; exact hwf rfl) hdn ?_
      intro h
      cases hd : f.dflt with
      | none => simp [veqOf, sfOf, hd]
      | some d => simp [hd] at h

/-- C04 (source tie): the model's step of object serialization is the step written with the conditions of the source -/
theorem serFieldStep_matches_source (o : SOpts) (td : Bool) (f : FieldInfo) (opt : Bool) (v? : Option Val)
    (ser : Val → Outcome Py) (rest : Outcome (List (String × Py))) (hwf : td = false → f.required = !f.dflt.isSome) :
    serFieldStep o td f opt v? ser rest = serFieldStepSrc o td f opt v? ser rest := by
  cases v? with
  | none =>
      have hp : evalT (presentTbl o.excludeNone o.excludeDefaults (ctxOf td f opt) false) Generated.omitPresent = !(td && !f.required) := by
        have := present_core td f.required opt f.dflt.isSome (f.dflt == some (.lit .null)) o.excludeNone o.excludeDefaults false
        simpa [ctxOf] using this
      unfold serFieldStepSrc serFieldStep
      simp only [hp]
      cases td <;> cases f.required <;> simp
  | some v =>
      have hp : evalT (presentTbl o.excludeNone o.excludeDefaults (ctxOf td f opt) true) Generated.omitPresent = true := by
        have := present_core td f.required opt f.dflt.isSome (f.dflt == some (.lit .null)) o.excludeNone o.excludeDefaults true
        simpa [ctxOf] using this
      have he := omit_matches_source o td f opt v hwf
      unfold serFieldStepSrc
      simp only [hp, he, Bool.true_and]
      unfold serFieldStep sfOf
      cases td <;> cases h : omitted o _ v <;> simp_all

/-- C04 (source tie): a field for which the visitor does not build a `ComplexField` is written unconditionally, as in the model -/
theorem simple_field_matches_source (o : SOpts) (td : Bool) (f : FieldInfo) (opt : Bool) (v : Val)
    (hwf : td = false → f.required = !f.dflt.isSome)
    (h : evalT (visitTbl o.excludeNone o.excludeDefaults (ctxOf td f opt)) Generated.visitComplex = false) :
    omitted o (sfOf td f opt) v = false := by
  rw [omitted_eq_omittedB]
  have hdn : (f.dflt == some (.lit .null)) = true → f.dflt.isSome = true := by
    intro h; have := eq_of_beq h; simp [this]
  have := simple_core td f.required opt f.dflt.isSome (f.dflt == some (.lit .null)) o.excludeNone o.excludeDefaults
    (v matches .null) (veqOf td f opt v) hwf hdn h
  cases td <;> simpa [sfOf, veqOf] using this

/-- C07 (source tie): `ObjectField.skippable` as written is the `skippable` of the serialization-schema model -/
theorem skippable_matches_source (so : SOpts) (f : FieldInfo) (t : Ty) (hwf : f.required = !f.dflt.isSome) :
    evalT (skTbl so.excludeNone so.excludeDefaults (ctxOf false f t.isOptionalUnion)) Generated.fieldSkippable = skippable so f t := by
  have := skippable_core f.required t.isOptionalUnion f.dflt.isSome so.excludeNone so.excludeDefaults hwf
  simp only [ctxOf, skippable]
  -- (the table does not read `dnull`)
  have h2 : skTbl so.excludeNone so.excludeDefaults ⟨false, f.required, t.isOptionalUnion, f.dflt.isSome, f.dflt == some (.lit .null)⟩
      = skTbl so.excludeNone so.excludeDefaults ⟨false, f.required, t.isOptionalUnion, f.dflt.isSome, false⟩ := rfl
  rw [h2, this]

end Api
