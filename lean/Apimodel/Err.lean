import Apimodel.Basic
/-! # `merge_errors` on canonical error trees -/
namespace Api

def lookupChild (cs : List (Key × Err)) (k : Key) : Option Err :=
  (cs.find? (fun c => c.1 == k)).map (·.2)

/-- children of `err2` whose key is not yet present -/
def addMissing (c2 : List (Key × Err)) (acc : List (Key × Err)) : List (Key × Err) :=
  c2.foldl (fun a c => if (lookupChild a c.1).isSome then a else setChild c.1 c.2 a) acc

/-- pick the same-key child of the other error, if any, and combine -/
def withOther (o : Option Err) (mine : Err) (k : Err → Err) : Err :=
  match o with | some e2 => k e2 | none => mine

mutual
/-- `merge_errors(err1, err2)` -/
def Err.merge : Err → Err → Err
  | .mk m1 c1, e2 => .mk (m1 ++ e2.msgs) (addMissing e2.children (mergeKids c1 e2.children))
termination_by structural e => e
/-- children of `err1`, each merged with the same-key child of `err2` if any -/
def mergeKids : List (Key × Err) → List (Key × Err) → List (Key × Err)
  | [], _ => []
  | (k, e) :: cs, c2 =>
      (k, withOther (lookupChild c2 k) e (fun e2 => e.merge e2)) :: mergeKids cs c2
termination_by structural cs => cs
end

/-- `merge_errors` with optional first argument -/
def mergeOpt (a : Option Err) (b : Err) : Err :=
  match a with | none => b | some e => e.merge b

end Api
