/-! Prototype for C20: small-step model of RecursiveChecker.visit with a shared cache. -/
namespace Api.Rec

abbrev Node := Nat
abbrev Graph := List (Node × List Node)

def children (g : Graph) (n : Node) : List Node :=
  match g.find? (·.1 == n) with | some (_, cs) => cs | none => []

abbrev Cache := List (Node × Bool)
def Cache.get? (c : Cache) (n : Node) : Option Bool := (c.find? (·.1 == n)).map (·.2)
def Cache.set (c : Cache) (n : Node) (b : Bool) : Cache := (n, b) :: c.filter (·.1 != n)

structure Frame where
  node : Node
  todo : List Node
  deriving Repr, DecidableEq

/-- thread-local state of one `RecursiveChecker` instance -/
structure Local where
  stack : List Frame := []              -- innermost first; guard = stack.map node (reversed)
  recOf : List (Node × List Node) := [] -- `_recursive`
  allRec : List Node := []              -- `_all_recursive`
  writes : List (Node × Bool) := []     -- pending writes of the current exit
  start : Option Node                   -- initial `visit` not yet performed
  deriving Repr, DecidableEq

def Local.done (l : Local) : Bool := l.stack.isEmpty && l.writes.isEmpty && l.start.isNone

def addRec (r : List (Node × List Node)) (k : Node) (seg : List Node) : List (Node × List Node) :=
  match r.find? (·.1 == k) with
  | some (_, old) => (k, old ++ seg.filter (fun x => !old.contains x)) :: r.filter (·.1 != k)
  | none => (k, seg) :: r

/-- `visit(n)`: one atomic read of the shared cache, then local bookkeeping -/
def enter (g : Graph) (c : Cache) (l : Local) (n : Node) : Local :=
  if (c.get? n).isSome then l                                   -- `rec_key in self._cache`: pass
  else
    let guard := (l.stack.map (·.node)).reverse                 -- outermost first
    if guard.contains n then
      let seg := guard.dropWhile (· != n)                       -- guard[index(n):]
      { l with recOf := addRec l.recOf n seg, allRec := l.allRec ++ seg.filter (fun x => !l.allRec.contains x) }
    else { l with stack := ⟨n, children g n⟩ :: l.stack }

/-- writes performed when `visit(n)` returns -/
def exitWrites (l : Local) (n : Node) : List (Node × Bool) :=
  match l.recOf.find? (·.1 == n) with
  | some (_, ks) => ks.map (·, true)
  | none => if l.allRec.contains n then [] else [(n, false)]

/-- one atomic step of a thread: at most one shared access -/
def step (g : Graph) (c : Cache) (l : Local) : Cache × Local :=
  match l.writes with
  | (k, b) :: ws => (c.set k b, { l with writes := ws })
  | [] =>
    match l.start with
    | some n => (c, enter g c { l with start := none } n)
    | none =>
      match l.stack with
      | [] => (c, l)
      | ⟨n, []⟩ :: rest => (c, { l with stack := rest, writes := exitWrites l n })
      | ⟨n, ch :: todo⟩ :: rest => (c, enter g c { l with stack := ⟨n, todo⟩ :: rest } ch)

structure State where
  cache : Cache
  a : Local
  b : Local
  deriving Repr, DecidableEq

def stepSched (g : Graph) (s : State) (t : Bool) : State :=
  if t then let (c, l) := step g s.cache s.b; { s with cache := c, b := l }
  else let (c, l) := step g s.cache s.a; { s with cache := c, a := l }

def runSched (g : Graph) (s : State) (sched : List Bool) : State := sched.foldl (stepSched g) s

/-- Node = 0 (fields: int = 2, List[Node] = 1); List[Node] = 1 → Node -/
def g0 : Graph := [(0, [2, 1]), (1, [0]), (2, [])]
def init0 : State := { cache := [], a := { start := some 1 }, b := { start := some 0 } }

/-- sequential: A then B -/
def seqAB : List Bool := List.replicate 30 false ++ List.replicate 30 true
/-- racy: B enters Node, A runs to completion, B finishes -/
def racy : List Bool := [true] ++ List.replicate 30 false ++ List.replicate 30 true

#eval (runSched g0 init0 seqAB).cache
#eval (runSched g0 init0 racy).cache
#eval ((runSched g0 init0 racy).a.done, (runSched g0 init0 racy).b.done)

theorem seq_ok : ((runSched g0 init0 seqAB).cache.get? 0) = some true := by decide +kernel
/-- C20 counterexample for the current code: a schedule after which Node is marked non-recursive -/
theorem race_counterexample :
    (runSched g0 init0 racy).a.done = true ∧ (runSched g0 init0 racy).b.done = true ∧
    (runSched g0 init0 racy).cache.get? 0 = some false := by decide +kernel
#print axioms race_counterexample
end Api.Rec
