/-! Prototype for C20: small-step model of RecursiveChecker.visit with a shared cache. -/
namespace Api.Rec

abbrev Node := Nat
abbrev Graph := List (Node × List Node)

def children (g : Graph) (n : Node) : List Node :=
  match g.find? (·.1 == n) with | some (_, cs) => cs | none => []

abbrev Cache := List (Node × Bool)
def Cache.get? (c : Cache) (n : Node) : Option Bool := (c.find? (·.1 == n)).map (·.2)
def Cache.set (c : Cache) (n : Node) (b : Bool) : Cache := (n, b) :: c.filter (·.1 != n)

structure Frame where
  node : Node
  todo : List Node
  deriving Repr, DecidableEq

/-- thread-local state of one `RecursiveChecker` instance -/
structure Local where
  stack : List Frame := []              -- innermost first; guard = stack.map node (reversed)
  recOf : List (Node × List Node) := [] -- `_recursive`
  allRec : List Node := []              -- `_all_recursive`
  writes : List (Node × Bool) := []     -- pending writes of the current exit
  start : Option Node                   -- initial `visit` not yet performed
  deriving Repr, DecidableEq

def Local.done (l : Local) : Bool := l.stack.isEmpty && l.writes.isEmpty && l.start.isNone

def addRec (r : List (Node × List Node)) (k : Node) (seg : List Node) : List (Node × List Node) :=
  match r.find? (·.1 == k) with
  | some (_, old) => (k, old ++ seg.filter (fun x => !old.contains x)) :: r.filter (·.1 != k)
  | none => (k, seg) :: r

/-- `visit(n)`: one atomic read of the shared cache, then local bookkeeping -/
def enter (g : Graph) (c : Cache) (l : Local) (n : Node) : Local :=
  if (c.get? n).isSome then l                                   -- `rec_key in self._cache`: pass
  else
    let guard := (l.stack.map (·.node)).reverse                 -- outermost first
    if guard.contains n then
      let seg := guard.dropWhile (· != n)                       -- guard[index(n):]
      { l with recOf := addRec l.recOf n seg, allRec := l.allRec ++ seg.filter (fun x => !l.allRec.contains x) }
    else { l with stack := ⟨n, children g n⟩ :: l.stack }

/-- writes performed when `visit(n)` returns, before the repair of row 96 (`stepEarly` in `RecSeq`) -/
def exitWrites (l : Local) (n : Node) : List (Node × Bool) :=
  match l.recOf.find? (·.1 == n) with
  | some (_, ks) => ks.map (·, true)
  | none => if l.allRec.contains n then [] else [(n, false)]

/-- the keys recorded for the head `k` (`_recursive.get(k, ())`) -/
def recKeys (r : List (Node × List Node)) (k : Node) : List Node :=
  match r.find? (·.1 == k) with | some (_, ks) => ks | none => []

/-- `visit(n)` returns (repaired, row 96): a head whose cycle is part of a bigger one still being explored — an outer key of the
    guard has recorded `n` — hands its keys to that outer head and writes nothing; otherwise it writes its keys.  A node that
    is no head writes `False` unless it belongs to a recorded cycle. -/
def exitFix (l : Local) (n : Node) (rest : List Frame) : Local :=
  match l.recOf.find? (·.1 == n) with
  | some (_, ks) =>
    match (rest.map (·.node)).reverse.find? (fun k => (recKeys l.recOf k).contains n) with
    | some k => { l with stack := rest, recOf := addRec (l.recOf.filter (·.1 != n)) k ks }
    | none => { l with stack := rest, writes := ks.map (·, true) }
  | none => { l with stack := rest, writes := if l.allRec.contains n then [] else [(n, false)] }

/-- one atomic step of a thread: at most one shared access -/
def step (g : Graph) (c : Cache) (l : Local) : Cache × Local :=
  match l.writes with
  | (k, b) :: ws => (c.set k b, { l with writes := ws })
  | [] =>
    match l.start with
    | some n => (c, enter g c { l with start := none } n)
    | none =>
      match l.stack with
      | [] => (c, l)
      | ⟨n, []⟩ :: rest => (c, exitFix l n rest)
      | ⟨n, ch :: todo⟩ :: rest => (c, enter g c { l with stack := ⟨n, todo⟩ :: rest } ch)

structure State where
  cache : Cache
  a : Local
  b : Local
  deriving Repr, DecidableEq

def stepSched (g : Graph) (s : State) (t : Bool) : State :=
  if t then let (c, l) := step g s.cache s.b; { s with cache := c, b := l }
  else let (c, l) := step g s.cache s.a; { s with cache := c, a := l }

def runSched (g : Graph) (s : State) (sched : List Bool) : State := sched.foldl (stepSched g) s

/-- Node = 0 (fields: int = 2, List[Node] = 1); List[Node] = 1 → Node -/
def g0 : Graph := [(0, [2, 1]), (1, [0]), (2, [])]
def init0 : State := { cache := [], a := { start := some 1 }, b := { start := some 0 } }

/-- sequential: A then B -/
def seqAB : List Bool := List.replicate 30 false ++ List.replicate 30 true
/-- racy: B enters Node, A runs to completion, B finishes -/
def racy : List Bool := [true] ++ List.replicate 30 false ++ List.replicate 30 true


theorem seq_ok : ((runSched g0 init0 seqAB).cache.get? 0) = some true := by decide +kernel
/-- C20 counterexample for the current code: a schedule after which Node is marked non-recursive -/
theorem race_counterexample :
    (runSched g0 init0 racy).a.done = true ∧ (runSched g0 init0 racy).b.done = true ∧
    (runSched g0 init0 racy).cache.get? 0 = some false := by decide +kernel

/-! ## the repaired protocol: the whole analysis of one call runs under a lock

`is_recursive` takes a lock around the cache test and the traversal (repair of row 19).  A thread may step only when
the lock is free or its own; it takes the lock with its first step and releases it when its call is complete. -/

structure LState where
  cache : Cache
  a : Local
  b : Local
  /-- `some t`: thread `t` (false = A, true = B) holds the lock -/
  owner : Option Bool := none
  deriving Repr, DecidableEq

def Local.started (l : Local) : Bool := l.start.isNone
/-- inside its critical section -/
def Local.mid (l : Local) : Bool := l.started && !l.done

def stepA (g : Graph) (s : LState) : LState :=
  if s.a.done then s                                  -- the call has returned
  else if s.owner == some true then s                 -- blocked on the lock
  else { s with cache := (step g s.cache s.a).1, a := (step g s.cache s.a).2,
                owner := if (step g s.cache s.a).2.done then none else some false }
def stepB (g : Graph) (s : LState) : LState :=
  if s.b.done then s
  else if s.owner == some false then s
  else { s with cache := (step g s.cache s.b).1, b := (step g s.cache s.b).2,
                owner := if (step g s.cache s.b).2.done then none else some true }
def stepLocked (g : Graph) (s : LState) (t : Bool) : LState := if t then stepB g s else stepA g s

def runLocked (g : Graph) (s : LState) (sched : List Bool) : LState := sched.foldl (stepLocked g) s

/-- the lock is free only when nobody is inside a critical section, and its holder is the only one inside -/
def lockInv (s : LState) : Bool :=
  match s.owner with
  | none => !s.a.mid && !s.b.mid
  | some false => !s.b.mid
  | some true => !s.a.mid

theorem mid_of_done {l : Local} (h : l.done = true) : l.mid = false := by simp [Local.mid, h]

theorem lockInv_stepA (g : Graph) (s : LState) (h : lockInv s = true) : lockInv (stepA g s) = true := by
  unfold stepA
  by_cases hd : s.a.done = true
  · rw [if_pos hd]; exact h
  · rw [if_neg hd]
    by_cases hb : (s.owner == some true) = true
    · rw [if_pos hb]; exact h
    · rw [if_neg hb]
      have hbm : s.b.mid = false := by
        unfold lockInv at h
        cases ho : s.owner with
        | none => rw [ho] at h; simp at h; exact h.2
        | some o => cases o with
          | false => rw [ho] at h; simpa using h
          | true => rw [ho] at hb; exact absurd rfl hb
      by_cases hdone : (step g s.cache s.a).2.done = true
      · simp [lockInv, hdone, mid_of_done hdone, hbm]
      · simp [lockInv, hdone, hbm]

theorem lockInv_stepB (g : Graph) (s : LState) (h : lockInv s = true) : lockInv (stepB g s) = true := by
  unfold stepB
  by_cases hd : s.b.done = true
  · rw [if_pos hd]; exact h
  · rw [if_neg hd]
    by_cases hb : (s.owner == some false) = true
    · rw [if_pos hb]; exact h
    · rw [if_neg hb]
      have ham : s.a.mid = false := by
        unfold lockInv at h
        cases ho : s.owner with
        | none => rw [ho] at h; simp at h; exact h.1
        | some o => cases o with
          | true => rw [ho] at h; simpa using h
          | false => rw [ho] at hb; exact absurd rfl hb
      by_cases hdone : (step g s.cache s.b).2.done = true
      · simp [lockInv, hdone, mid_of_done hdone, ham]
      · simp [lockInv, hdone, ham]

theorem lockInv_run (g : Graph) : ∀ (sched : List Bool) (s : LState), lockInv s = true → lockInv (runLocked g s sched) = true
  | [], _, h => h
  | t :: ts, s, h => by
    unfold runLocked
    rw [List.foldl_cons]
    have : lockInv (stepLocked g s t) = true := by
      unfold stepLocked; cases t
      · simpa using lockInv_stepA g s h
      · simpa using lockInv_stepB g s h
    exact lockInv_run g ts _ this

/-- **C20 (mutual exclusion of the repaired protocol).** For every type graph, every pair of calls and every
    schedule — any length, any interleaving — the two traversals are never both inside their critical sections:
    the shared cache is only ever read and written by one complete analysis at a time. -/
theorem C20_mutex (g : Graph) (s : LState) (h : lockInv s = true) (sched : List Bool) :
    ¬ ((runLocked g s sched).a.mid = true ∧ (runLocked g s sched).b.mid = true) := by
  have hinv := lockInv_run g sched s h
  intro ⟨ha, hb⟩
  unfold lockInv at hinv
  cases ho : (runLocked g s sched).owner with
  | none => rw [ho] at hinv; simp [ha] at hinv
  | some o => cases o <;> (rw [ho] at hinv; simp [ha, hb] at hinv)

def linit0 : LState := { cache := [], a := { start := some 1 }, b := { start := some 0 } }
theorem linit0_inv : lockInv linit0 = true := by decide

/-- the racy schedule of `race_counterexample` under the lock: B's first step takes the lock, A is blocked until B has
    finished, and `Node` is recursive for both (a finite check on the example graph, by evaluation) -/
theorem C20_locked_racy_schedule_ok :
    (runLocked g0 linit0 (racy ++ racy)).a.done = true ∧ (runLocked g0 linit0 (racy ++ racy)).b.done = true ∧
    (runLocked g0 linit0 (racy ++ racy)).cache.get? 0 = some true ∧ (runLocked g0 linit0 (racy ++ racy)).cache.get? 1 = some true := by
  decide +kernel

end Api.Rec
