/-! Abstract forest walk: membership, no duplicates, permutation. Used for C16 (`sort_by_order`). -/
namespace Forest

variable {α : Type}

/-- `j`-th ancestor along the parent function -/
def up (par : α → Option α) : Nat → α → Option α
  | 0, x => some x
  | j+1, x => (up par j x).bind par

/-- `add_to_result` with fuel: before-children's blocks, the element, after-children's blocks -/
def walk (pre post : α → List α) : Nat → α → List α
  | 0, _ => []
  | k+1, e => (pre e).flatMap (walk pre post k) ++ [e] ++ (post e).flatMap (walk pre post k)

variable {par : α → Option α}

theorem up_add (a b : Nat) (x : α) : up par (a + b) x = (up par a x).bind (up par b) := by
  induction b with
  | zero => simp [up]
  | succ b ih =>
    show up par (a + b + 1) x = _
    rw [up, ih]
    cases up par a x <;> simp [up]

theorem up_succ' (j : Nat) (x : α) : up par (j+1) x = (par x).bind (up par j) := by
  have := up_add (par := par) 1 j x
  rw [Nat.add_comm] at this
  rw [this]; simp [up]

theorem up_none_of_root {r : α} (hr : par r = none) : ∀ j, 0 < j → up par j r = none := by
  intro j hj
  obtain ⟨j, rfl⟩ : ∃ k, j = k + 1 := ⟨j - 1, by omega⟩
  rw [up_succ', hr]; rfl

/-- `e`'s ancestor chain ends in a root -/
def Rooted (par : α → Option α) (e : α) : Prop := ∃ i r, up par i e = some r ∧ par r = none

theorem Rooted.no_cycle {e : α} (h : Rooted par e) : ∀ j, 0 < j → up par j e ≠ some e := by
  obtain ⟨i, r, hi, hr⟩ := h
  intro j hj hcyc
  have h1 : up par (j + i) e = some r := by rw [up_add, hcyc]; simpa using hi
  have h2 : up par (i + j) e = none := by rw [up_add, hi]; simpa using up_none_of_root hr j hj
  rw [Nat.add_comm] at h1; rw [h1] at h2; cases h2

theorem Rooted.child {c e : α} (h : Rooted par e) (hc : par c = some e) : Rooted par c := by
  obtain ⟨i, r, hi, hr⟩ := h
  exact ⟨i+1, r, by rw [up_succ', hc]; simpa using hi, hr⟩

/-- two different positions on a chain cannot both be `e` when `e` is rooted -/
theorem chain_unique {x e : α} (he : Rooted par e) {j1 j2 : Nat}
    (h1 : up par j1 x = some e) (h2 : up par j2 x = some e) : j1 = j2 := by
  rcases Nat.lt_trichotomy j1 j2 with h | h | h
  · exfalso
    have : up par (j1 + (j2 - j1)) x = some e := by rw [Nat.add_sub_cancel' (Nat.le_of_lt h)]; exact h2
    rw [up_add, h1] at this
    exact he.no_cycle (j2 - j1) (by omega) (by simpa using this)
  · exact h
  · exfalso
    have : up par (j2 + (j1 - j2)) x = some e := by rw [Nat.add_sub_cancel' (Nat.le_of_lt h)]; exact h1
    rw [up_add, h2] at this
    exact he.no_cycle (j1 - j2) (by omega) (by simpa using this)

/-- the forest data: a universe, children lists that are exactly the parent relation -/
structure Wf (par : α → Option α) (pre post : α → List α) (U : List α) : Prop where
  closed : ∀ c ∈ U, ∀ p, par c = some p → p ∈ U
  kids : ∀ e ∈ U, ∀ c, (c ∈ pre e ∨ c ∈ post e) ↔ (c ∈ U ∧ par c = some e)
  preNodup : ∀ e, (pre e).Nodup
  postNodup : ∀ e, (post e).Nodup
  disj : ∀ e c, c ∈ pre e → c ∉ post e

variable {pre post : α → List α} {U : List α}

theorem up_mem (w : Wf par pre post U) {x : α} (hx : x ∈ U) : ∀ j c, up par j x = some c → c ∈ U := by
  intro j
  induction j with
  | zero => intro c h; simp [up] at h; subst h; exact hx
  | succ j ih =>
    intro c h
    rw [up] at h
    cases hj : up par j x with
    | none => rw [hj] at h; cases h
    | some d => rw [hj] at h; exact w.closed d (ih d hj) c (by simpa using h)

theorem walk_sub (w : Wf par pre post U) : ∀ k e, e ∈ U → ∀ x ∈ walk pre post k e, x ∈ U := by
  intro k
  induction k with
  | zero => intro e _ x hx; simp [walk] at hx
  | succ k ih =>
    intro e he x hx
    simp only [walk, List.mem_append, List.mem_flatMap, List.mem_singleton] at hx
    rcases hx with (⟨c, hc, hxc⟩ | rfl) | ⟨c, hc, hxc⟩
    · exact ih c ((w.kids e he c).1 (Or.inl hc)).1 x hxc
    · exact he
    · exact ih c ((w.kids e he c).1 (Or.inr hc)).1 x hxc

theorem mem_walk (w : Wf par pre post U) : ∀ k e, e ∈ U → ∀ x, x ∈ U →
    (x ∈ walk pre post k e ↔ ∃ j, j < k ∧ up par j x = some e) := by
  intro k
  induction k with
  | zero => intro e _ x _; simp [walk]
  | succ k ih =>
    intro e he x hx
    simp only [walk, List.mem_append, List.mem_flatMap, List.mem_singleton]
    constructor
    · rintro ((⟨c, hc, hxc⟩ | rfl) | ⟨c, hc, hxc⟩)
      · obtain ⟨hcU, hpar⟩ := (w.kids e he c).1 (Or.inl hc)
        obtain ⟨j, hj, hup⟩ := (ih c hcU x hx).1 hxc
        exact ⟨j+1, by omega, by rw [up, hup]; simpa using hpar⟩
      · exact ⟨0, by omega, rfl⟩
      · obtain ⟨hcU, hpar⟩ := (w.kids e he c).1 (Or.inr hc)
        obtain ⟨j, hj, hup⟩ := (ih c hcU x hx).1 hxc
        exact ⟨j+1, by omega, by rw [up, hup]; simpa using hpar⟩
    · rintro ⟨j, hj, hup⟩
      cases j with
      | zero => simp [up] at hup; subst hup; exact Or.inl (Or.inr rfl)
      | succ j =>
        rw [up] at hup
        cases hc : up par j x with
        | none => rw [hc] at hup; cases hup
        | some c =>
          rw [hc] at hup
          have hpar : par c = some e := by simpa using hup
          have hcU := up_mem w hx j c hc
          have hxc := (ih c hcU x hx).2 ⟨j, by omega, hc⟩
          rcases (w.kids e he c).2 ⟨hcU, hpar⟩ with h | h
          · exact Or.inl (Or.inl ⟨c, h, hxc⟩)
          · exact Or.inr ⟨c, h, hxc⟩

theorem nodup_walk (w : Wf par pre post U) : ∀ k e, e ∈ U → Rooted par e →
    (walk pre post k e).Nodup := by
  intro k
  induction k with
  | zero => intro e _ _; simp [walk]
  | succ k ih =>
    intro e he hr
    -- facts about children
    have kidU : ∀ c, (c ∈ pre e ∨ c ∈ post e) → c ∈ U ∧ par c = some e := fun c h => (w.kids e he c).1 h
    -- an element of a child's block has `e` as a strict ancestor
    have blk : ∀ c, (c ∈ pre e ∨ c ∈ post e) → ∀ x ∈ walk pre post k c,
        x ∈ U ∧ ∃ j, up par j x = some c := by
      intro c hc x hx
      have hxU := walk_sub w k c (kidU c hc).1 x hx
      obtain ⟨j, _, hj⟩ := (mem_walk w k c (kidU c hc).1 x hxU).1 hx
      exact ⟨hxU, j, hj⟩
    -- blocks of two different children are disjoint
    have disjBlk : ∀ c1 c2, (c1 ∈ pre e ∨ c1 ∈ post e) → (c2 ∈ pre e ∨ c2 ∈ post e) → c1 ≠ c2 →
        ∀ x ∈ walk pre post k c1, ∀ y ∈ walk pre post k c2, x ≠ y := by
      intro c1 c2 h1 h2 hne x hx y hy hxy
      subst hxy
      obtain ⟨_, j1, hj1⟩ := blk c1 h1 x hx
      obtain ⟨_, j2, hj2⟩ := blk c2 h2 x hy
      have e1 : up par (j1+1) x = some e := by rw [up, hj1]; simpa using (kidU c1 h1).2
      have e2 : up par (j2+1) x = some e := by rw [up, hj2]; simpa using (kidU c2 h2).2
      have := chain_unique hr e1 e2
      have hj : j1 = j2 := by omega
      subst hj
      rw [hj1] at hj2; exact hne (by simpa using hj2)
    -- `e` itself is in no child's block
    have eNot : ∀ c, (c ∈ pre e ∨ c ∈ post e) → e ∉ walk pre post k c := by
      intro c hc hmem
      obtain ⟨_, j, hj⟩ := blk c hc e hmem
      exact hr.no_cycle (j+1) (by omega) (by rw [up, hj]; simpa using (kidU c hc).2)
    have flatNodup : ∀ (l : List α), l.Nodup → (∀ c ∈ l, c ∈ pre e ∨ c ∈ post e) →
        (l.flatMap (walk pre post k)).Nodup := by
      intro l hl hsub
      unfold List.Nodup
      rw [List.pairwise_flatMap]
      refine ⟨fun c hc => ih c (kidU c (hsub c hc)).1 (hr.child (kidU c (hsub c hc)).2), ?_⟩
      exact (List.Pairwise.imp_of_mem (fun {a b} ha hb hab => disjBlk a b (hsub a ha) (hsub b hb) hab) hl)
    simp only [walk]
    rw [List.append_assoc, List.nodup_append]
    refine ⟨flatNodup _ (w.preNodup e) (fun c hc => Or.inl hc), ?_, ?_⟩
    · rw [List.nodup_append]
      refine ⟨by simp, flatNodup _ (w.postNodup e) (fun c hc => Or.inr hc), ?_⟩
      intro a ha b hb hab
      simp only [List.mem_singleton] at ha; subst ha
      obtain ⟨c, hc, hbc⟩ := List.mem_flatMap.1 hb
      exact eNot c (Or.inr hc) (hab ▸ hbc)
    · intro a ha b hb hab
      obtain ⟨c1, hc1, hac⟩ := List.mem_flatMap.1 ha
      rcases List.mem_append.1 hb with hb | hb
      · simp only [List.mem_singleton] at hb; subst hb
        exact eNot c1 (Or.inl hc1) (hab ▸ hac)
      · obtain ⟨c2, hc2, hbc⟩ := List.mem_flatMap.1 hb
        have hne : c1 ≠ c2 := fun h => w.disj e c1 hc1 (h ▸ hc2)
        exact disjBlk c1 c2 (Or.inl hc1) (Or.inr hc2) hne a hac b hbc hab

/-- the whole output: blocks of the roots, in the given root order -/
def output (pre post : α → List α) (roots : List α) (n : Nat) : List α :=
  roots.flatMap (walk pre post n)

/-- never duplicates -/
theorem nodup_output (w : Wf par pre post U) {roots : List α} (hn : roots.Nodup)
    (hroot : ∀ r ∈ roots, r ∈ U ∧ par r = none) (n : Nat) : (output pre post roots n).Nodup := by
  unfold output List.Nodup
  rw [List.pairwise_flatMap]
  refine ⟨fun r hr => nodup_walk w n r (hroot r hr).1 ⟨0, r, rfl, (hroot r hr).2⟩, ?_⟩
  refine List.Pairwise.imp_of_mem (fun {r1 r2} h1 h2 hne x hx y hy hxy => ?_) hn
  subst hxy
  have hxU := walk_sub w n r1 (hroot r1 h1).1 x hx
  obtain ⟨j1, _, hj1⟩ := (mem_walk w n r1 (hroot r1 h1).1 x hxU).1 hx
  obtain ⟨j2, _, hj2⟩ := (mem_walk w n r2 (hroot r2 h2).1 x hxU).1 hy
  rcases Nat.lt_trichotomy j1 j2 with h | h | h
  · have : up par (j1 + (j2 - j1)) x = some r2 := by rw [Nat.add_sub_cancel' (Nat.le_of_lt h)]; exact hj2
    rw [up_add, hj1] at this
    have hnone := up_none_of_root (hroot r1 h1).2 (j2 - j1) (by omega)
    simp only [Option.bind_some] at this; rw [hnone] at this; cases this
  · subst h; rw [hj1] at hj2; exact hne (by simpa using hj2)
  · have : up par (j2 + (j1 - j2)) x = some r1 := by rw [Nat.add_sub_cancel' (Nat.le_of_lt h)]; exact hj1
    rw [up_add, hj2] at this
    have hnone := up_none_of_root (hroot r2 h2).2 (j1 - j2) (by omega)
    simp only [Option.bind_some] at this; rw [hnone] at this; cases this

/-- never loses: if every element's chain reaches a listed root within the fuel, the output is a
    permutation of the universe -/
theorem perm_output (w : Wf par pre post U) (hU : U.Nodup) {roots : List α} (hn : roots.Nodup)
    (hroot : ∀ r ∈ roots, r ∈ U ∧ par r = none) (n : Nat)
    (anchored : ∀ x ∈ U, ∃ j, j < n ∧ ∃ r ∈ roots, up par j x = some r) :
    (output pre post roots n).Perm U := by
  rw [List.perm_ext_iff_of_nodup (nodup_output w hn hroot n) hU]
  intro x
  constructor
  · intro hx
    obtain ⟨r, hr, hxr⟩ := List.mem_flatMap.1 hx
    exact walk_sub w n r (hroot r hr).1 x hxr
  · intro hx
    obtain ⟨j, hj, r, hr, hup⟩ := anchored x hx
    exact List.mem_flatMap.2 ⟨r, hr, (mem_walk w n r (hroot r hr).1 x hx).2 ⟨j, hj, hup⟩⟩

#print axioms perm_output
end Forest
