import Apimodel.NoCrashThm
/-!
# C02: the errors of a rejection are exactly the violations, each once, at its location, in order
Index-keyed fragment (lists, both tuple kinds, primitives, `Any`, literals, NewTypes, annotations).
-/
namespace Api

/-- what `ValidationError.errors` would list -/
def Outcome.errs : Outcome Val → Errs
  | .invalid e => e.flatten
  | _ => []

/-! ## specification -/
def ownErrs (rs : List Rule) : Errs := rs.map (fun r => ([], r))

/-- wrong JSON class: one message at the datum itself -/
def badT (c : JClass) (d : Py) : Errs :=
  match d.jclass? with
  | some f => [([], .badType c (some f))]
  | Option.none => []

/-- children of an array, each under its index, in index order -/
def violIdx (f : Py → Errs) : Nat → List Py → Errs
  | _, [] => []
  | i, x :: xs => pre (.idx i) (f x) ++ violIdx f (i+1) xs

mutual
def violations : Constraints → Ty → Py → Errs
  | _, .null, d => match d with | .null => [] | _ => badT .null d
  | _, .bool, d => match d with | .bool _ => [] | _ => badT .bool d
  | cs, .int, d => match d with | .int i => ownErrs (cs.numErrors (.int i)) | _ => badT .int d
  | cs, .float, d => match d with
      | .float f => ownErrs (cs.numErrors (.flt f))
      | .int i => (match intToFlt i with | some f => ownErrs (cs.numErrors (.flt f)) | Option.none => [])
      | _ => badT .float d
  | cs, .str, d => match d with | .str s => ownErrs (cs.strErrors s) | _ => badT .str d
  | cs, .any, d => match d with
      | .int i => ownErrs (cs.numErrors (.int i))
      | .float f => ownErrs (cs.numErrors (.flt f))
      | .str s => ownErrs (cs.strErrors s)
      | .list xs => ownErrs ((cs.listErrors xs).getD [])
      | .dict kvs => ownErrs (cs.dictErrors kvs.length)
      | _ => []
  | cs, .list t, d => match d with
      | .list xs => ownErrs ((cs.listErrors xs).getD []) ++ violIdx (fun x => violations {} t x) 0 xs
      | _ => badT .list d
  | cs, .vtuple t, d => match d with
      | .list xs => ownErrs ((cs.listErrors xs).getD []) ++ violIdx (fun x => violations {} t x) 0 xs
      | _ => badT .list d
  | cs, .tuple ts, d => match d with
      | .list xs =>
          if xs.length < ts.length then [([], .minItems ts.length)]
          else if xs.length > ts.length then [([], .maxItems ts.length)]
          else ownErrs ((cs.listErrors xs).getD []) ++ violZip ts 0 xs
      | _ => badT .list d
  | cs, .newtype _ t, d => violations cs t d
  | cs, .ann c t, d => violations (c.merge cs) t d
  | _, _, _ => []
termination_by structural _ t => t
def violZip : List Ty → Nat → List Py → Errs
  | t :: ts, i, x :: xs => pre (.idx i) (violations {} t x) ++ violZip ts (i+1) xs
  | _, _, _ => []
termination_by structural ts => ts
end

/-! ## the loops produce exactly the children's errors, keyed and ordered -/

/-- children errors of a loop, in index order -/
def childErrs (f : Py → Outcome Val) : Nat → List Py → List (Key × Err)
  | _, [] => []
  | i, x :: xs => match f x with
    | .invalid e => (.idx i, e) :: childErrs f (i+1) xs
    | _ => childErrs f (i+1) xs

theorem childErrs_keys (f : Py → Outcome Val) : ∀ (xs : List Py) (i : Nat) (p : Key × Err),
    p ∈ childErrs f i xs → ∃ j, p.1 = .idx j ∧ i ≤ j
  | [], _, p, h => by cases h
  | x :: xs, i, p, h => by
    rw [childErrs] at h
    cases hr : f x with
    | invalid e =>
      rw [hr] at h
      rcases List.mem_cons.1 h with rfl | h'
      · exact ⟨i, rfl, Nat.le_refl _⟩
      · obtain ⟨j, hj, hle⟩ := childErrs_keys f xs (i+1) p h'
        exact ⟨j, hj, by omega⟩
    | ok v =>
      rw [hr] at h
      obtain ⟨j, hj, hle⟩ := childErrs_keys f xs (i+1) p h
      exact ⟨j, hj, by omega⟩
    | crash c =>
      rw [hr] at h
      obtain ⟨j, hj, hle⟩ := childErrs_keys f xs (i+1) p h
      exact ⟨j, hj, by omega⟩

/-- inserting a smaller index in front of larger ones is a `cons` -/
theorem setChild_front (i : Nat) (e : Err) : ∀ (cs : List (Key × Err)),
    (∀ p ∈ cs, ∃ j, p.1 = .idx j ∧ i < j) → setChild (.idx i) e cs = (.idx i, e) :: cs
  | [], _ => rfl
  | (k, e') :: cs, h => by
    obtain ⟨j, hj, hlt⟩ := h (k, e') (List.mem_cons_self ..)
    simp only at hj; subst hj
    rw [setChild]
    have h1 : (Key.idx i = Key.idx j) = False := by simp; omega
    have h2 : (Key.idx i).lt (Key.idx j) = true := by simp [Key.lt, hlt]
    simp [h1, h2]

theorem collect_errs (f : Py → Outcome Val) : ∀ (xs : List Py) (i : Nat),
    (∀ x ∈ xs, (f x).isCrash = false) → (collect f i xs).errs = childErrs f i xs
  | [], _, _ => rfl
  | x :: xs, i, h => by
    have hx := h x (List.mem_cons_self ..)
    have ih := collect_errs f xs (i+1) (fun y hy => h y (List.mem_cons_of_mem _ hy))
    rw [collect, childErrs]
    cases hr : f x with
    | ok v => simp [stepAcc, ih]
    | crash c => rw [hr] at hx; cases hx
    | invalid e =>
      simp only [stepAcc, ih]
      apply setChild_front
      intro p hp
      obtain ⟨j, hj, hle⟩ := childErrs_keys f xs (i+1) p hp
      exact ⟨j, hj, by omega⟩

theorem flatten_childErrs (f : Py → Outcome Val) : ∀ (xs : List Py) (i : Nat),
    flattenL (childErrs f i xs) = violIdx (fun x => (f x).errs) i xs
  | [], _ => by rw [childErrs, violIdx, flattenL]
  | x :: xs, i => by
    rw [childErrs, violIdx]
    cases hr : f x with
    | invalid e => simp only; rw [flattenL, flatten_childErrs f xs (i+1)]; rfl
    | ok v => simp only; rw [flatten_childErrs f xs (i+1)]; simp [Outcome.errs, pre]
    | crash c => simp only; rw [flatten_childErrs f xs (i+1)]; simp [Outcome.errs, pre]

theorem violIdx_congr {f g : Py → Errs} : ∀ (xs : List Py) (i : Nat), (∀ x ∈ xs, f x = g x) →
    violIdx f i xs = violIdx g i xs
  | [], _, _ => rfl
  | x :: xs, i, h => by
    rw [violIdx, violIdx, h x (List.mem_cons_self ..),
      violIdx_congr xs (i+1) (fun y hy => h y (List.mem_cons_of_mem _ hy))]

theorem errs_finish {own : List Rule} {acc : Acc} {mk : List Val → Outcome Val} (ha : acc.crash = Option.none)
    (hmk : ∀ vs, (mk vs).errs = []) :
    (finish (some own) acc mk).errs = ownErrs own ++ flattenL acc.errs := by
  unfold finish
  rw [ha]
  cases own with
  | nil =>
    simp only
    split
    · next he =>
      have : acc.errs = [] := by simpa using he
      rw [hmk, this]; rfl
    · simp [Outcome.errs, Err.flatten, ownErrs]
  | cons r rs => simp [Outcome.errs, Err.flatten, ownErrs]

theorem errs_badType {exps : List JClass} {d : Py} {c : JClass} (hd : d.json = true) (he : exps = [c]) :
    (badType exps d).errs = badT c d := by
  subst he
  cases d <;> first | rfl | cases hd

theorem errs_constrained (rs v) : (constrained rs v).errs = ownErrs rs := by
  unfold constrained; cases rs <;> simp [Outcome.errs, Err.ofMsgs, Err.flatten, ownErrs, flattenL]

theorem listErrors_some (c : Constraints) (xs : List Py) (hu : c.unique = false) :
    c.listErrors xs = some ((c.listErrors xs).getD []) := by
  have := listErrors_isSome c xs hu
  cases h : c.listErrors xs with
  | none => rw [h] at this; cases this
  | some rs => rfl

theorem numErrors_noNum {cs : Constraints} (h : ¬cs.hasNum = true) : cs.numErrors = ({} : Constraints).numErrors := by
  funext x
  simp only [Constraints.hasNum, Bool.or_eq_true, not_or, Bool.not_eq_true, Option.isSome_eq_false_iff, Option.isNone_iff_eq_none] at h
  simp [Constraints.numErrors, optRule, h.1.1.1.1, h.1.1.1.2, h.1.1.2, h.1.2, h.2]

theorem strErrors_noStr {cs : Constraints} (h : ¬cs.hasStr = true) : cs.strErrors = ({} : Constraints).strErrors := by
  funext x
  simp only [Constraints.hasStr, Bool.or_eq_true, not_or, Bool.not_eq_true, Option.isSome_eq_false_iff, Option.isNone_iff_eq_none] at h
  simp [Constraints.strErrors, optRule, h.1.1, h.1.2, h.2]

/-- what a method must satisfy for its errors to be the specification's -/
def ErrsOk (m : Meth) (cs : Constraints) (t : Ty) : Prop :=
  NC m ∧ ∀ d, d.json = true → (run m d).errs = violations cs t d

theorem errs_listLike {c : Constraints} {m : Meth} {t : Ty} (hu : c.unique = false) (hm : ErrsOk m {} t)
    (mk : Py → List Val → Outcome Val) (hmk : ∀ d vs, (mk d vs).errs = []) (d : Py) (hd : d.json = true) :
    (onList d (fun xs => finish (c.listErrors xs) (collect (fun x => run m x) 0 xs) (mk d))).errs
      = (match d with
         | .list xs => ownErrs ((c.listErrors xs).getD []) ++ violIdx (fun x => violations {} t x) 0 xs
         | _ => badT .list d) := by
  cases d <;> try (first | exact errs_badType hd rfl | cases hd)
  case list xs =>
    rw [Py.json] at hd
    have hnc : ∀ x ∈ xs, (run m x).isCrash = false := fun x hx => hm.1 x (jsonX_of_json.1 x (jsonL_mem hd x hx))
    simp only [onList]
    rw [listErrors_some c xs hu, errs_finish (collect_nocrash _ xs 0 hnc) (hmk _), collect_errs _ xs 0 hnc,
      flatten_childErrs]
    congr 1
    exact violIdx_congr xs 0 (fun x hx => hm.2 x (jsonL_mem hd x hx))

theorem errs_listSel {o : DOpts} {c : Constraints} {m : Meth} {t : Ty} (hu : c.unique = false) (hm : ErrsOk m {} t)
    (d : Py) (hd : d.json = true) :
    (run (listSel o c m) d).errs
      = (match d with
         | .list xs => ownErrs ((c.listErrors xs).getD []) ++ violIdx (fun x => violations {} t x) 0 xs
         | _ => badT .list d) := by
  unfold listSel; split
  · rw [run]; exact errs_listLike hu hm (fun d _ => .ok (asVal d)) (fun _ _ => rfl) d hd
  · rw [run]; exact errs_listLike hu hm (fun _ vs => .ok (.list vs)) (fun _ _ => rfl) d hd

theorem errs_mapVal_tuple (r : Outcome Val) : (mapVal r listToTuple).errs = r.errs := by
  cases r with
  | ok v => cases v <;> rfl
  | invalid e => rfl
  | crash c => rfl

abbrev ErrsOkL (cs : Constraints) := All2 (fun (m : Meth) (t : Ty) => ErrsOk m cs t)

theorem runTuple_errs {ms : List Meth} {ts : List Ty} (h : ErrsOkL {} ms ts) : ∀ (xs : List Py) (i : Nat),
    jsonL xs = true →
    (∀ p ∈ (runTuple ms i xs).errs, ∃ j, p.1 = Key.idx j ∧ i ≤ j) ∧
    flattenL (runTuple ms i xs).errs = violZip ts i xs := by
  induction h with
  | nil => intro xs i _; cases xs <;> simp [runTuple, violZip, flattenL]
  | @cons m t ms ts hm _ ih =>
    intro xs i hj
    cases xs with
    | nil => simp [runTuple, violZip, flattenL]
    | cons x xs =>
      rw [jsonL, Bool.and_eq_true] at hj
      obtain ⟨ihk, ihf⟩ := ih xs (i+1) hj.2
      have hx := hm.1 x (jsonX_of_json.1 x hj.1)
      have he := hm.2 x hj.1
      rw [runTuple, violZip]
      cases hr : run m x with
      | crash c => rw [hr] at hx; cases hx
      | ok v =>
        rw [hr] at he
        simp only [stepAcc]
        refine ⟨fun p hp => ?_, ?_⟩
        · obtain ⟨j, hj', hle⟩ := ihk p hp; exact ⟨j, hj', by omega⟩
        · rw [ihf, ← he]; simp [Outcome.errs, pre]
      | invalid e =>
        rw [hr] at he
        simp only [stepAcc]
        have hfront := setChild_front i e (runTuple ms (i+1) xs).errs (fun p hp => by
          obtain ⟨j, hj', hle⟩ := ihk p hp; exact ⟨j, hj', by omega⟩)
        rw [hfront]
        refine ⟨fun p hp => ?_, ?_⟩
        · rcases List.mem_cons.1 hp with rfl | hp'
          · exact ⟨i, rfl, Nat.le_refl _⟩
          · obtain ⟨j, hj', hle⟩ := ihk p hp'; exact ⟨j, hj', by omega⟩
        · rw [flattenL, ihf, ← he]; rfl

mutual
-- index-keyed fragment
def Ty.efrag : Ty → Bool
  | .null | .bool | .int | .float | .str | .any => true
  | .list t | .vtuple t | .newtype _ t | .ann _ t => t.efrag
  | .tuple ts => efragL ts
  | _ => false
termination_by structural t => t
def efragL : List Ty → Bool
  | [] => true
  | t :: ts => t.efrag && efragL ts
termination_by structural ts => ts
end

/-- **C02, index-keyed fragment.** The flattened errors of the compiled method are exactly the
    specification's violations — own messages first, then each child's violations under its index, in
    index order; nothing dropped, nothing duplicated, nothing at a valid location — for every nesting
    depth, every number and position of simultaneous violations, `no_copy` on or off. -/
theorem errors_eq_violations (o : DOpts) (ho : OptsOk o) :
    (∀ cs t, t.acc = true → t.nouq = true → t.efrag = true → cs.unique = false → ErrsOk (compile o cs t) cs t) ∧
    (∀ (fs : List (FieldInfo × Ty)), True) ∧
    (∀ cs ts, accL ts = true → nouqL ts = true → efragL ts = true → cs.unique = false →
        ErrsOkL cs (compileL o cs ts) ts) := by
  have hq1 : o.quirks.floatAcceptsBool = false := by rw [ho.quirks]; rfl
  have hq2 : o.quirks.tupleDropsErrors = false := by rw [ho.quirks]; rfl
  have hnc := no_crash o ho
  apply compile.mutual_induct
  · intro cs ha hn _ hu
    refine ⟨hnc.1 cs _ ha hn hu, fun d hd => ?_⟩
    rw [compile, run]
    cases d <;> first | rfl | exact errs_badType hd rfl | cases hd
  · intro cs ha hn _ hu
    refine ⟨hnc.1 cs _ ha hn hu, fun d hd => ?_⟩
    rw [compile, run]
    cases d <;> first | rfl | exact errs_badType hd rfl | cases hd
  · intro cs h ha hn _ hu
    refine ⟨hnc.1 cs _ ha hn hu, fun d hd => ?_⟩
    rw [compile, if_pos h, run]
    cases d <;> first | exact errs_constrained _ _ | exact errs_badType hd rfl | cases hd
  · intro cs h ha hn _ hu
    refine ⟨hnc.1 cs _ ha hn hu, fun d hd => ?_⟩
    rw [compile, if_neg h, run]
    cases d <;> try (first | exact errs_badType hd rfl | (cases hd; done))
    case int i =>
      show (constrained (({} : Constraints).numErrors (.int i)) (.int i)).errs = ownErrs (cs.numErrors (.int i))
      rw [numErrors_noNum h]; exact errs_constrained _ _
  · -- float, constrained
    intro cs h ha hn _ hu
    refine ⟨hnc.1 cs _ ha hn hu, fun d hd => ?_⟩
    rw [compile, if_pos h, hq1, run]
    cases d <;> try (first | exact errs_constrained _ _ | exact errs_badType hd rfl | (cases hd; done))
    case int i =>
      rw [Py.json] at hd
      show (intAsFloat cs i).errs = violations cs .float (.int i)
      rw [violations]; unfold intAsFloat
      cases hi : intToFlt i with
      | none => rw [hi] at hd; cases hd
      | some f => exact errs_constrained _ _
  · intro cs h ha hn _ hu
    refine ⟨hnc.1 cs _ ha hn hu, fun d hd => ?_⟩
    rw [compile, if_neg h, hq1, run]
    cases d <;> try (first | exact errs_badType hd rfl | (cases hd; done))
    case float f =>
      show (constrained (({} : Constraints).numErrors (.flt f)) (.float f)).errs = ownErrs (cs.numErrors (.flt f))
      rw [numErrors_noNum h]; exact errs_constrained _ _
    case int i =>
      rw [Py.json] at hd
      show (intAsFloat {} i).errs = violations cs .float (.int i)
      rw [violations]; unfold intAsFloat
      cases hi : intToFlt i with
      | none => rw [hi] at hd; cases hd
      | some f => simp only; rw [numErrors_noNum h]; exact errs_constrained _ _
  · intro cs h ha hn _ hu
    refine ⟨hnc.1 cs _ ha hn hu, fun d hd => ?_⟩
    rw [compile, if_pos h, run]
    cases d <;> first | exact errs_constrained _ _ | exact errs_badType hd rfl | cases hd
  · intro cs h ha hn _ hu
    refine ⟨hnc.1 cs _ ha hn hu, fun d hd => ?_⟩
    rw [compile, if_neg h, run]
    cases d <;> try (first | exact errs_badType hd rfl | (cases hd; done))
    case str s' =>
      show (constrained (({} : Constraints).strErrors s') (.str s')).errs = ownErrs (cs.strErrors s')
      rw [strErrors_noStr h]; exact errs_constrained _ _
  · -- any
    intro cs ha hn _ hu
    refine ⟨hnc.1 cs _ ha hn hu, fun d hd => ?_⟩
    rw [compile, run]
    cases d <;> try (first | exact errs_constrained _ _ | rfl | (cases hd; done))
    case list xs =>
      show (runAny cs (.list xs)).errs = ownErrs ((cs.listErrors xs).getD [])
      simp only [runAny]; rw [listErrors_some cs xs hu]; exact errs_constrained _ _
  · -- list
    intro cs t ih ha hn he hu
    have ha' := ha; have hn' := hn
    rw [Ty.acc] at ha; rw [Ty.nouq] at hn; rw [Ty.efrag] at he
    refine ⟨hnc.1 cs _ ha' hn' hu, fun d hd => ?_⟩
    rw [compile, errs_listSel hu (ih ha hn he rfl) d hd]
    cases d <;> rfl
  · intro cs t _ _ _ he; simp [Ty.efrag] at he
  · intro cs t _ _ _ he; simp [Ty.efrag] at he
  · -- vtuple
    intro cs t ih ha hn he hu
    have ha' := ha; have hn' := hn
    rw [Ty.acc] at ha; rw [Ty.nouq] at hn; rw [Ty.efrag] at he
    refine ⟨hnc.1 cs _ ha' hn' hu, fun d hd => ?_⟩
    rw [compile, run, errs_mapVal_tuple, errs_listSel hu (ih ha hn he rfl) d hd]
    cases d <;> rfl
  · -- tuple
    intro cs ts ih ha hn he hu
    have ha' := ha; have hn' := hn
    rw [Ty.acc] at ha; rw [Ty.nouq] at hn; rw [Ty.efrag] at he
    refine ⟨hnc.1 cs _ ha' hn' hu, fun d hd => ?_⟩
    have hl := ih ha hn he rfl
    rw [compile, hq2, run]
    cases d <;> try (first | exact errs_badType hd rfl | (cases hd; done))
    case list xs =>
      rw [Py.json] at hd
      rw [violations]
      simp only [onList]; unfold tupleBody
      rw [hl.length_eq]
      split
      · rfl
      · split
        · rfl
        · have hcr : (runTuple (compileL o {} ts) 0 xs).crash = Option.none :=
            runTuple_nocrash _ xs 0 (hnc.2.2 {} ts ha hn rfl) (jsonX_of_json.2.2 xs hd)
          simp only [Bool.false_eq_true, if_false]
          have hfin := errs_finish (own := (cs.listErrors xs).getD []) (mk := fun vs => Outcome.ok (Val.tuple vs))
            hcr (fun _ => rfl)
          rw [← listErrors_some cs xs hu] at hfin
          rw [hfin, (runTuple_errs hl xs 0 hd).2]
  · intro cs k v _ _ _ _ he; simp [Ty.efrag] at he
  · intro cs ts _ _ _ he; simp [Ty.efrag] at he
  · intro cs vs _ _ he; simp [Ty.efrag] at he
  · intro cs c ms _ _ he; simp [Ty.efrag] at he
  · intro cs n t ih ha hn he hu
    rw [Ty.acc] at ha; rw [Ty.nouq] at hn; rw [Ty.efrag] at he
    rw [compile]
    have := ih ha hn he hu
    exact ⟨this.1, fun d hd => by rw [this.2 d hd, violations]⟩
  · intro cs c t ih ha hn he hu
    rw [Ty.acc] at ha; rw [Ty.nouq] at hn; rw [Ty.efrag] at he
    simp only [Bool.and_eq_true, Bool.not_eq_true'] at hn
    rw [compile]
    have := ih ha hn.2 he (merge_unique' hn.1 hu)
    exact ⟨this.1, fun d hd => by rw [this.2 d hd, violations]⟩
  · intro cs ci fs _ _ _ he; simp [Ty.efrag] at he
  · intro cs _ _ _ _; rw [compileL]; exact All2.nil
  · intro cs t ts iht ihts ha hn he hu
    rw [accL, Bool.and_eq_true] at ha; rw [nouqL, Bool.and_eq_true] at hn; rw [efragL, Bool.and_eq_true] at he
    rw [compileL]; exact All2.cons (iht ha.1 hn.1 he.1 hu) (ihts ha.2 hn.2 he.2 hu)
  · trivial
  · intros; trivial

/-- entry point -/
theorem C02_errors_eq_partial (o : DOpts) (ho : OptsOk o) (t : Ty) (ha : t.acc = true) (hn : t.nouq = true)
    (he : t.efrag = true) (d : Py) (hd : d.json = true) :
    (deserialize o {} t d).errs = violations {} t d := by
  unfold deserialize
  simp only [(compile_noFail o).1 {} t ha]
  exact ((errors_eq_violations o ho).1 {} t ha hn he rfl).2 d hd

/-- three simultaneous violations at distinct depths are all reported, in order -/
example : violations {} (.list (.tuple [.int, .list (.ann { max := some (.int 5) } .int)]))
    (.list [.list [.str "a", .list [.int 9, .bool true]], .int 3])
  = [([.idx 0, .idx 0], .badType .int (some .str)),
     ([.idx 0, .idx 1, .idx 0], .maximum (.int 5)),
     ([.idx 0, .idx 1, .idx 1], .badType .int (some .bool)),
     ([.idx 1], .badType .list (some .int))] := by decide +kernel

/-- the pinned tree (`TupleMethod` discards the result of `set_child_error`, row 1) violates the statement -/
theorem C02_tuple_counterexample :
    (deserialize { quirks := Quirks.current } {} (.tuple [.int, .str]) (.list [.str "a", .str "b"])).isOk = true
    ∧ violations {} (.tuple [.int, .str]) (.list [.str "a", .str "b"]) ≠ [] := by decide +kernel

end Api
