import Apimodel.UnionSelThm
/-!
# C01 / C03 / C13 with unions at any depth

`accepts_iff_conforms` (C01) and `no_crash` (C03) are proved over `Ty.acc`, where a union is only `Optional[T]`;
`C01_accept_union` adds one union at the root.  Here both statements are proved *jointly* — acceptance of a sequential
union needs the no-crash property of its earlier alternatives — by one induction over `compile`, for a scope in which
unions of any shape may occur at any depth.
-/
namespace Api

/-! ### data: distinct keys (`wf`) and no crash-prone leaf (`jsonX`) -/
def Py.good (d : Py) : Bool := d.wf && d.jsonX

theorem good_list {xs : List Py} (h : (Py.list xs).good = true) : ∀ x ∈ xs, x.good = true := by
  unfold Py.good at h ⊢
  rw [Bool.and_eq_true, Py.wf, Py.jsonX] at h
  intro x hx
  rw [Bool.and_eq_true]; exact ⟨wfL_mem h.1 x hx, jsonXL_mem h.2 x hx⟩

theorem good_dict {kvs : List (String × Py)} (h : (Py.dict kvs).good = true) :
    wfK kvs = true ∧ jsonXK kvs = true ∧ (keysOf kvs).Nodup := by
  unfold Py.good at h
  rw [Bool.and_eq_true, Py.wf, Py.jsonX, Bool.and_eq_true] at h
  exact ⟨h.1.2, h.2, keysK_eq kvs ▸ nodup_of_distinctStrs h.1.1⟩

/-! ### no crash of the two general union methods -/
theorem runUnion_nc : ∀ (ms : List Meth) (d : Py) (err : Option Err),
    (∀ m ∈ ms, (run m d).isCrash = false) → (ms ≠ [] ∨ err.isSome = true) → (runUnion ms d err).isCrash = false
  | [], d, err, _, hne => by
    rw [runUnion]; unfold unionEnd
    cases err with
    | none => rcases hne with h | h <;> simp at h
    | some e => rfl
  | m :: ms, d, err, h, _ => by
    rw [runUnion]
    have hm := h m (List.mem_cons_self ..)
    unfold unionStep
    cases hr : run m d with
    | ok v => rfl
    | crash c => rw [hr] at hm; cases hm
    | invalid e => exact runUnion_nc ms d _ (fun m' hm' => h m' (List.mem_cons_of_mem _ hm')) (Or.inr rfl)

theorem nc_union {ms : List Meth} (hne : ms ≠ []) (h : ∀ m ∈ ms, NC m) : NC (.union ms) := by
  intro d hd; rw [run]
  exact runUnion_nc ms d Option.none (fun m hm => h m hm d hd) (Or.inl hne)

theorem nc_byTypeTail {others d r} (hr : r.isCrash = false) : (byTypeTail others d r).isCrash = false := by
  unfold byTypeTail
  cases r with
  | ok v => rfl
  | crash c => cases hr
  | invalid e => simp only [badType]; rfl

theorem runByType_nc : ∀ (rest all : List (JClass × Meth)) (c : JClass) (d : Py),
    (∀ p ∈ rest, (run p.2 d).isCrash = false) → (runByType rest all c d).isCrash = false
  | [], all, c, d, _ => by rw [runByType]; rfl
  | (c', m) :: rest, all, c, d, h => by
    rw [runByType]
    split
    · exact nc_byTypeTail (h (c', m) (List.mem_cons_self ..))
    · exact runByType_nc rest all c d (fun p hp => h p (List.mem_cons_of_mem _ hp))

theorem nc_unionByType {tbl : List (JClass × Meth)} (h : ∀ p ∈ tbl, NC p.2) : NC (.unionByType tbl) := by
  intro d hd; rw [run]
  cases hc : d.jclass? with
  | none => rfl
  | some c => exact runByType_nc tbl tbl c d (fun p hp => h p hp d hd)

end Api
