import Apimodel.UnionSelThm
/-!
# C01 / C03 / C13 with unions at any depth

`accepts_iff_conforms` (C01) and `no_crash` (C03) are proved over `Ty.acc`, where a union is only `Optional[T]`;
`C01_accept_union` adds one union at the root.  Here both statements are proved *jointly* — acceptance of a sequential
union needs the no-crash property of its earlier alternatives — by one induction over `compile`, for a scope in which
unions of any shape may occur at any depth.
-/
namespace Api

/-! ### data: distinct keys (`wf`) and no crash-prone leaf (`jsonX`) -/
def Py.good (d : Py) : Bool := d.wf && d.jsonX

theorem good_list {xs : List Py} (h : (Py.list xs).good = true) : ∀ x ∈ xs, x.good = true := by
  unfold Py.good at h ⊢
  rw [Bool.and_eq_true, Py.wf, Py.jsonX] at h
  intro x hx
  rw [Bool.and_eq_true]; exact ⟨wfL_mem h.1 x hx, jsonXL_mem h.2 x hx⟩

theorem good_dict {kvs : List (String × Py)} (h : (Py.dict kvs).good = true) :
    wfK kvs = true ∧ jsonXK kvs = true ∧ (keysOf kvs).Nodup := by
  unfold Py.good at h
  rw [Bool.and_eq_true, Py.wf, Py.jsonX, Bool.and_eq_true] at h
  exact ⟨h.1.2, h.2, keysK_eq kvs ▸ nodup_of_distinctStrs h.1.1⟩

theorem good_wf {d : Py} (h : d.good = true) : d.wf = true := by
  unfold Py.good at h; rw [Bool.and_eq_true] at h; exact h.1
theorem good_jsonX {d : Py} (h : d.good = true) : d.jsonX = true := by
  unfold Py.good at h; rw [Bool.and_eq_true] at h; exact h.2
theorem good_str (s : String) : (Py.str s).good = true := rfl

/-! ### acceptance over good data -/
/-- per (method, type): acceptance of the method = conformance to the type, on data with distinct keys and no
    crash-prone leaf -/
def AcceptsG (o : DOpts) (cs : Constraints) (m : Meth) (t : Ty) : Prop :=
  ∀ d, d.good = true → (run m d).isOk = conforms o.additionalProperties false cs t d

abbrev AcceptsGF (o : DOpts) :=
  All2 (fun (fm : FieldInfo × Meth) (ft : FieldInfo × Ty) => fm.1 = ft.1 ∧ AcceptsG o {} fm.2 ft.2)

theorem zipOk_of_AcceptsG {o : DOpts} : ∀ (ts : List Ty), (∀ t ∈ ts, AcceptsG o {} (compile o {} t) t) →
    ∀ xs : List Py, (∀ x ∈ xs, x.good = true) →
    zipOkM (compileL o {} ts) xs = conformsZip o.additionalProperties false ts xs
  | [], _, xs, _ => by rw [compileL]; cases xs <;> simp [zipOkM, conformsZip]
  | t :: ts, h, xs, hx => by
    rw [compileL]
    cases xs with
    | nil => simp [zipOkM, conformsZip]
    | cons x xs =>
      simp only [zipOkM, conformsZip, h t (List.mem_cons_self ..) x (hx x (List.mem_cons_self ..)),
        zipOk_of_AcceptsG ts (fun t' ht' => h t' (List.mem_cons_of_mem _ ht')) xs
          (fun x' hx' => hx x' (List.mem_cons_of_mem _ hx'))]

theorem fields_of_AcceptsGF {o ms ts} (h : AcceptsGF o ms ts) (hacc : nfF ts = true) :
    (∀ kvs, wfK kvs = true → jsonXK kvs = true → fieldsOkM ms kvs = conformsF o.additionalProperties false ts kvs)
    ∧ aliasesM ms = aliasesOf ts ∧ NoFbod ms := by
  induction h with
  | nil => exact ⟨fun kvs _ _ => by simp [fieldsOkM, conformsF], by simp [aliasesOf], fun fm h => by cases h⟩
  | @cons a b l1 l2 hab _ ih =>
    obtain ⟨f, m⟩ := a; obtain ⟨f', t⟩ := b
    obtain ⟨hf, hm⟩ := hab
    simp only at hf hm; subst hf
    rw [nfF] at hacc
    simp only [Bool.and_eq_true, Bool.not_eq_true'] at hacc
    obtain ⟨ih1, ih2, ih3⟩ := ih hacc.2
    refine ⟨fun kvs hw hj => ?_, by rw [aliasesM_cons, aliasesOf, ih2], ?_⟩
    · rw [fieldsOkM_cons, conformsF, ih1 kvs hw hj]
      congr 1
      unfold fieldOk0 fieldOk
      cases hl : lookupKey kvs f.alias with
      | none => rfl
      | some x =>
        have hg : x.good = true := by
          unfold Py.good; rw [lookupKey_wf hw hl, lookupKey_json hj hl]; rfl
        simp only [hm x hg, hacc.1, Bool.or_false, Bool.and_false]
    · intro fm hfm
      rcases List.mem_cons.1 hfm with rfl | hmem
      · exact hacc.1
      · exact ih3 fm hmem

/-- acceptance of whichever object method `object()` selects, on good data -/
theorem isOk_objSelG {o : DOpts} {ci c} {ms : List (FieldInfo × Meth)} {ts : List (FieldInfo × Ty)}
    (h : AcceptsGF o ms ts) (hacc : nfF ts = true) (hal : (aliasesOf ts).Nodup) (d : Py) (hg : d.good = true) :
    (run (objSel o ci c ms) d).isOk
      = dictOk c d (fun kvs => conformsF o.additionalProperties false ts kvs
                                && noUnexpected o.additionalProperties (aliasesOf ts) kvs && depOk (infosOf ts) kvs) := by
  obtain ⟨hfields, halias, hnf⟩ := fields_of_AcceptsGF h hacc
  have hinfos := infos_of_All2 h
  have ha : (aliasesM ms).Nodup := halias ▸ hal
  unfold objSel
  simp only
  split
  · rename_i hcond
    simp only [Bool.and_eq_true, Bool.not_eq_true', beq_iff_eq] at hcond
    obtain ⟨⟨⟨hc, htd⟩, _⟩, hsimple⟩ := hcond
    rw [run]
    cases d <;> simp [onDict, dictOk, isOk_badType]
    case dict kvs =>
      obtain ⟨hw, hj, hk⟩ := good_dict hg
      rw [isOk_finishSimple hnf hk ha, hfields kvs hw hj, halias, dictErrors_nil hc, htd, ← hinfos,
        depOk_of_noDeps (simpleOk_noDeps hsimple) kvs]
      simp
  · rw [run]
    cases d <;> simp [onDict, dictOk, isOk_badType]
    case dict kvs =>
      obtain ⟨hw, hj, hk⟩ := good_dict hg
      rw [isOk_finishObj hnf hk ha, hfields kvs hw hj, halias, hinfos]

theorem nfF_of_accUF : ∀ {fs : List (FieldInfo × Ty)}, accUF fs = true → nfF fs = true
  | [], _ => rfl
  | (f, t) :: fs, h => by
    rw [accUF] at h; simp only [Bool.and_eq_true, Bool.not_eq_true'] at h
    simp [nfF, h.1.1, nfF_of_accUF h.2]

theorem accUL_mem : ∀ {ts : List Ty}, accUL ts = true → ∀ t ∈ ts, t.accU = true
  | t' :: ts, h, t, ht => by
    rw [accUL, Bool.and_eq_true] at h
    rcases List.mem_cons.1 ht with rfl | hm
    · exact h.1
    · exact accUL_mem h.2 t hm
theorem nouqL_mem : ∀ {ts : List Ty}, nouqL ts = true → ∀ t ∈ ts, t.nouq = true
  | t' :: ts, h, t, ht => by
    rw [nouqL, Bool.and_eq_true] at h
    rcases List.mem_cons.1 ht with rfl | hm
    · exact h.1
    · exact nouqL_mem h.2 t hm

/-- **C01 / C13 (acceptance), version 2.** For every type of `Ty.accU` — unions of any shape (Optional, dispatch by
    JSON class, sequential) at any depth — without `uniqueItems`, every inherited constraint set, every value of
    `additional_properties`, `no_copy` and `override_dataclass_constructors`, and every datum with distinct keys and no
    crash-prone leaf, the compiled method returns a value exactly when the datum conforms: some alternative matches. -/
theorem acceptsU (o : DOpts) (ho : OptsOk o) :
    (∀ cs t, t.accU = true → t.nouq = true → cs.unique = false → AcceptsG o cs (compile o cs t) t) ∧
    (∀ fs, accUF fs = true → nouqF fs = true → AcceptsGF o (compileF o fs) fs) ∧
    (∀ cs ts, accUL ts = true → nouqL ts = true → cs.unique = false →
        ∀ t ∈ ts, AcceptsG o cs (compile o cs t) t) := by
  have hq2 : o.quirks.tupleDropsErrors = false := by rw [ho.quirks]; rfl
  have leaf : ∀ cs t, t.acc = true → AcceptsG o cs (compile o cs t) t :=
    fun cs t ht d hg => (accepts_iff_conforms o ho).1 cs t ht d (good_wf hg)
  apply compile.mutual_induct
  · intro cs _ _ _; exact leaf cs .null rfl
  · intro cs _ _ _; exact leaf cs .bool rfl
  · intro cs _ _ _ _; exact leaf cs .int rfl
  · intro cs _ _ _ _; exact leaf cs .int rfl
  · intro cs _ _ _ _; exact leaf cs .float rfl
  · intro cs _ _ _ _; exact leaf cs .float rfl
  · intro cs _ _ _ _; exact leaf cs .str rfl
  · intro cs _ _ _ _; exact leaf cs .str rfl
  · intro cs _ _ _; exact leaf cs .any rfl
  · -- list
    intro cs t ih hs hn hu d hg
    rw [Ty.accU] at hs; rw [Ty.nouq] at hn
    rw [compile, isOk_listSel, conforms]
    apply listOk_congr_mem
    intro xs hd x hx
    subst hd
    exact ih hs hn rfl x (good_list hg x hx)
  · intro cs t _ hs; rw [Ty.accU] at hs; cases hs
  · intro cs t _ hs; rw [Ty.accU] at hs; cases hs
  · -- variadic tuple
    intro cs t ih hs hn hu d hg
    rw [Ty.accU] at hs; rw [Ty.nouq] at hn
    rw [compile, run, isOk_mapVal_tuple, isOk_listSel, conforms]
    apply listOk_congr_mem
    intro xs hd x hx
    subst hd
    exact ih hs hn rfl x (good_list hg x hx)
  · -- tuple
    intro cs ts ih hs hn hu d hg
    rw [Ty.accU] at hs; rw [Ty.nouq] at hn
    rw [compile, hq2, isOk_tuple, conforms, compileL_length]
    cases d <;> try rfl
    case list xs =>
      simp only [tupleOk, zipOk_of_AcceptsG ts (ih hs hn rfl) xs (good_list hg)]
  · -- mapping
    intro cs k v ihk ihv hs hn hu d hg
    rw [Ty.accU, Bool.and_eq_true] at hs; rw [Ty.nouq, Bool.and_eq_true] at hn
    rw [compile, isOk_mappingSel, conforms]
    apply dictOk_congr
    intro kvs hd
    subst hd
    obtain ⟨hw, hj, _⟩ := good_dict hg
    apply all_congr_mem
    intro kv hkv
    have hgv : kv.2.good = true := by
      unfold Py.good; rw [wfK_mem hw kv hkv, jsonXK_mem hj kv hkv]; rfl
    rw [ihk hs.1 hn.1 rfl (.str kv.1) (good_str _), ihv hs.2 hn.2 rfl kv.2 hgv]
  · -- unions of any shape
    intro cs ts ih hs hn hu d hg
    rw [Ty.accU] at hs; rw [Ty.nouq] at hn
    simp only [Bool.and_eq_true, Bool.not_eq_true', Bool.not_eq_eq_eq_not, Bool.not_true] at hs
    rw [compile, conforms]
    refine union_accepts_at o cs ts d (fun t ht => ⟨?_, ih hs.1.1 hn hu t ht d hg⟩) ?_ ?_ ?_
    · exact (no_crashU o ho).1 cs t (accUL_mem hs.1.1 t ht) (nouqL_mem hn t ht) hu d (good_jsonX hg)
    · intro t ht hc
      have := List.all_eq_true.1 hs.1.2 t ht
      unfold sideOk at this
      rw [hc] at this
      cases t <;> simp [Ty.isNull] at this ⊢
    · intro he; rw [he] at hs; simp at hs
    · intro hall
      have : ts.all Ty.isNull = true := List.all_eq_true.2 (fun t ht => by rw [hall t ht]; rfl)
      rw [this] at hs; exact absurd hs.2 (by simp)
  · intro cs vs _ _ _; exact leaf cs (.literal vs) rfl
  · intro cs c ms _ _ _; exact leaf cs (.enum c ms) rfl
  · intro cs n t ih hs hn hu d hg; rw [Ty.accU] at hs; rw [Ty.nouq] at hn; rw [compile, conforms]; exact ih hs hn hu d hg
  · intro cs c t ih hs hn hu d hg
    rw [Ty.accU] at hs; rw [Ty.nouq] at hn
    simp only [Bool.and_eq_true, Bool.not_eq_true'] at hn
    rw [compile, conforms]; exact ih hs hn.2 (merge_unique' hn.1 hu) d hg
  · -- objects
    intro cs ci fs ih hs hn _ d hg
    rw [Ty.accU, Bool.and_eq_true] at hs; rw [Ty.nouq] at hn
    rw [compile, conforms]
    exact isOk_objSelG (ih hs.2 hn) (nfF_of_accUF hs.2) (nodup_of_distinctStrs hs.1) d hg
  · intro cs _ _ _ t ht; cases ht
  · intro cs t ts iht ihts hs hn hu t' ht'
    rw [accUL, Bool.and_eq_true] at hs; rw [nouqL, Bool.and_eq_true] at hn
    rcases List.mem_cons.1 ht' with rfl | hm
    · exact iht hs.1 hn.1 hu
    · exact ihts hs.2 hn.2 hu t' hm
  · intro _ _; rw [compileF]; exact All2.nil
  · intro f t fs iht ihfs hs hn
    rw [accUF] at hs; simp only [Bool.and_eq_true, Bool.not_eq_true'] at hs
    rw [nouqF, Bool.and_eq_true] at hn
    rw [compileF]
    exact All2.cons ⟨withFbod_id ho.fbod f, iht hs.1.2 hn.1 rfl⟩ (ihfs hs.2 hn.2)

/-- **C01 / C03 / C13, entry point, version 2.** `deserialize(T, data)` never leaks a foreign exception and returns a
    value iff `data` conforms to `T`, for `T` with unions at any depth. -/
theorem C01_acceptU (o : DOpts) (ho : OptsOk o) (t : Ty) (ha : t.accU = true) (hn : t.nouq = true)
    (d : Py) (hd : d.good = true) :
    (deserialize o {} t d).isCrash = false ∧
    (deserialize o {} t d).isOk = conforms o.additionalProperties false {} t d := by
  refine ⟨C03_no_crashU o ho t ha hn d (good_jsonX hd), ?_⟩
  unfold deserialize
  simp only [(compile_noFailU o).1 {} t ha]
  exact (acceptsU o ho).1 {} t ha hn rfl d hd

/-! ### the hypotheses are satisfiable; the three union methods and both verdicts occur -/

/-- `Dict[str, Union[int, str, List[Union[float, int, None]]]]`: a by-type table around a sequential union -/
def exTyU : Ty := .mapping .str (.union [.int, .str, .list (.union [.float, .int, .null])])

example : exTyU.accU = true ∧ exTyU.nouq = true ∧ exTyU.acc = false := by decide +kernel
example : (Py.dict [("a", .int 1), ("b", .list [.null, .int 2]), ("c", .str "x")]).good = true := by decide +kernel
example : conforms false false {} exTyU (.dict [("a", .int 1), ("b", .list [.null, .int 2]), ("c", .str "x")]) = true := by
  decide +kernel
example : conforms false false {} exTyU (.dict [("a", .int 1), ("b", .list [.null, .bool true])]) = false := by
  decide +kernel
example : (match compile exOpts {} exTyU with
    | .mapping _ _ (.unionByType [(_, _), (_, _), (_, .list _ (.union [_, _, _]))]) => true
    | _ => false) = true := by decide +kernel
example : (deserialize exOpts {} exTyU (.dict [("a", .int 1), ("b", .list [.null, .int 2]), ("c", .str "x")])).isOk = true := by
  decide +kernel

end Api
