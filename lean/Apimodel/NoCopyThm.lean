import Apimodel.DeserLemmas
/-!
# C08 (clause `no_copy`): the result of deserialization does not depend on `no_copy`

Scope of this file (`Scope t`): no TypedDict (its two code paths order the resulting dict
differently, which Python's `==` ignores but the model's lists do not), and mapping key types that
cannot fail on a string key (finding 30: otherwise the two variants report different errors).
-/
namespace Api

/-- pointwise equality of behaviour -/
def REq (m1 m2 : Meth) : Prop := ∀ d, run m1 d = run m2 d

theorem collect_congr {f g : Py → Outcome Val} (h : ∀ x, f x = g x) :
    ∀ xs i, collect f i xs = collect g i xs := by
  intro xs; induction xs with
  | nil => intro i; rfl
  | cons x xs ih => intro i; simp only [collect, h x, ih]

theorem collectSet_congr {f g : Py → Outcome Val} (h : ∀ x, f x = g x) :
    ∀ xs i, collectSet f i xs = collectSet g i xs := by
  intro xs; induction xs with
  | nil => intro i; rfl
  | cons x xs ih => intro i; simp only [collectSet, h x, ih]

theorem setChild_ne_nil (k : Key) (e : Err) (cs : List (Key × Err)) : setChild k e cs ≠ [] := by
  cases cs with
  | nil => simp [setChild]
  | cons c cs => obtain ⟨k', e'⟩ := c; simp only [setChild]; split <;> (try split) <;> simp

/-- when a loop over check-only element results ends without error, the collected values are the data -/
theorem collect_vals {f : Py → Outcome Val} (hf : ∀ x v, f x = .ok v → v = asVal x) :
    ∀ xs i, (collect f i xs).crash = Option.none → (collect f i xs).errs = [] →
      (collect f i xs).vals = asValL xs := by
  intro xs; induction xs with
  | nil => intro i _ _; simp [collect, asValL]
  | cons x xs ih =>
    intro i hc he
    simp only [collect] at hc he ⊢
    cases hr : f x with
    | crash c => simp [hr, stepAcc] at hc
    | invalid e => simp only [hr, stepAcc] at he; exact absurd he (setChild_ne_nil _ _ _)
    | ok v =>
      simp only [hr, stepAcc] at hc he ⊢
      rw [asValL, ih (i+1) hc he, hf x v hr]

theorem finish_congr {own acc} {mk1 mk2 : List Val → Outcome Val}
    (h : acc.crash = Option.none → acc.errs = [] → mk1 acc.vals = mk2 acc.vals) :
    finish own acc mk1 = finish own acc mk2 := by
  unfold finish
  cases hc : acc.crash with
  | some c => rfl
  | none =>
    simp only
    cases own with
    | none => rfl
    | some rs =>
      cases rs with
      | cons r rs => rfl
      | nil =>
        simp only
        cases he : acc.errs with
        | nil => simpa using h hc he
        | cons e es => simp

theorem asVal_list (xs : List Py) : asVal (.list xs) = .list (asValL xs) := by rw [asVal]

/-- `ListCheckOnlyMethod` and `ListMethod` agree when the element method is check-only -/
theorem list_variants {c m1 m2} (hm : REq m1 m2) (hco : m1.checkOnly = true) :
    REq (.listCheckOnly c m1) (.list c m2) := by
  intro d
  rw [run, run]
  cases d <;> try rfl
  case list xs =>
    simp only [onList]
    rw [← collect_congr (f := fun x => run m1 x) (g := fun x => run m2 x) (fun x => hm x)]
    apply finish_congr
    intro hc he
    rw [asVal_list, collect_vals (fun x v h => checkOnly_returnsData.1 m1 hco x v h) xs 0 hc he]

theorem list_congr {c m1 m2} (hm : REq m1 m2) : REq (.list c m1) (.list c m2) := by
  intro d; rw [run, run]
  cases d <;> try rfl
  case list xs => simp only [onList]; rw [collect_congr (fun x => hm x)]

theorem listCheckOnly_congr {c m1 m2} (hm : REq m1 m2) : REq (.listCheckOnly c m1) (.listCheckOnly c m2) := by
  intro d; rw [run, run]
  cases d <;> try rfl
  case list xs => simp only [onList]; rw [collect_congr (fun x => hm x)]

theorem set_congr {c m1 m2} (hm : REq m1 m2) : REq (.set c m1) (.set c m2) := by
  intro d; rw [run, run]
  cases d <;> try rfl
  case list xs => simp only [onList]; rw [collectSet_congr (fun x => hm x)]

theorem frozenset_congr {m1 m2} (hm : REq m1 m2) : REq (.frozenset m1) (.frozenset m2) := by
  intro d; rw [run, run, hm d]
theorem vtuple_congr {m1 m2} (hm : REq m1 m2) : REq (.vtuple m1) (.vtuple m2) := by
  intro d; rw [run, run, hm d]
theorem optional_congr {m1 m2} (hm : REq m1 m2) : REq (.optional m1) (.optional m2) := by
  intro d; rw [run, run, hm d]

/-- `listSel` under the two settings of `no_copy` -/
theorem listSel_noCopy {o : DOpts} {c m1 m2} (hm : REq m1 m2) :
    REq (listSel { o with noCopy := true } c m1) (listSel { o with noCopy := false } c m2) := by
  unfold listSel
  simp only [Bool.true_and, Bool.false_and, Bool.false_eq_true, if_false]
  split
  · rename_i hco; exact list_variants hm hco
  · exact list_congr hm

/-! ### lists of methods -/
/-- element-wise relation between two lists of the same length -/
inductive All2 {α β : Type} (R : α → β → Prop) : List α → List β → Prop where
  | nil : All2 R [] []
  | cons {a b l1 l2} : R a b → All2 R l1 l2 → All2 R (a :: l1) (b :: l2)

theorem All2.length_eq {α β : Type} {R : α → β → Prop} {l1 l2} (h : All2 R l1 l2) : l1.length = l2.length := by
  induction h with
  | nil => rfl
  | cons _ _ ih => simp [ih]

abbrev REqL := All2 REq

@[simp] theorem runTuple_nil (i xs) : runTuple [] i xs = {} := by rw [runTuple]; intros; contradiction
@[simp] theorem runTuple_cons_nil (m ms i) : runTuple (m :: ms) i [] = {} := by rw [runTuple]; intros; contradiction
@[simp] theorem runTuple_cons_cons (m ms i x xs) :
    runTuple (m :: ms) i (x :: xs) = stepAcc (.idx i) (run m x) (runTuple ms (i+1) xs) := by rw [runTuple]

theorem runTuple_congr {ms1 ms2} (h : REqL ms1 ms2) : ∀ i xs, runTuple ms1 i xs = runTuple ms2 i xs := by
  induction h with
  | nil => intro i xs; simp
  | cons hm _ ih =>
    intro i xs
    cases xs with
    | nil => simp
    | cons x xs => simp only [runTuple_cons_cons, hm x, ih]

theorem tuple_congr {q c ms1 ms2} (h : REqL ms1 ms2) : REq (.tuple q c ms1) (.tuple q c ms2) := by
  intro d; rw [run, run]
  cases d <;> try rfl
  case list xs => simp only [onList]; rw [runTuple_congr h, h.length_eq]

@[simp] theorem runUnion_nil (d err) : runUnion [] d err = unionEnd err := by rw [runUnion]
@[simp] theorem runUnion_cons (m ms d err) :
    runUnion (m :: ms) d err = unionStep (run m d) (fun e => runUnion ms d e) err := by rw [runUnion]

theorem runUnion_congr {ms1 ms2} (h : REqL ms1 ms2) : ∀ d err, runUnion ms1 d err = runUnion ms2 d err := by
  induction h with
  | nil => intro d err; rfl
  | cons hm _ ih =>
    intro d err
    simp only [runUnion_cons, hm d]
    unfold unionStep
    cases run _ d <;> simp only [ih]

theorem union_congr {ms1 ms2} (h : REqL ms1 ms2) : REq (.union ms1) (.union ms2) := by
  intro d; rw [run, run]; exact runUnion_congr h d _

/-- tables with the same classes and pointwise-equal methods -/
abbrev REqT := All2 (fun (a b : JClass × Meth) => a.1 = b.1 ∧ REq a.2 b.2)

theorem map_fst_eq {t1 t2} (h : REqT t1 t2) : t1.map (·.1) = t2.map (·.1) := by
  induction h with
  | nil => rfl
  | cons hab _ ih => simp only [List.map_cons, hab.1, ih]

theorem runByType_congr {t1 t2} (h : REqT t1 t2) : ∀ all1 all2, all1.map (·.1) = all2.map (·.1) →
    ∀ c d, runByType t1 all1 c d = runByType t2 all2 c d := by
  induction h with
  | nil => intro all1 all2 hall c d; rw [runByType, runByType, hall]
  | @cons a b l1 l2 hab _ ih =>
    intro all1 all2 hall c d
    obtain ⟨c1, m1⟩ := a; obtain ⟨c2, m2⟩ := b
    obtain ⟨hc, hm⟩ := hab
    simp only at hc hm; subst hc
    rw [runByType, runByType, hall, hm d, ih all1 all2 hall]

theorem unionByType_congr {t1 t2} (h : REqT t1 t2) : REq (.unionByType t1) (.unionByType t2) := by
  intro d; rw [run, run]
  cases d.jclass? with
  | none => simp only [map_fst_eq h]
  | some c => exact runByType_congr h t1 t2 (map_fst_eq h) c d

theorem zip_reqT {ms1 ms2} (h : REqL ms1 ms2) : ∀ (cs : List JClass), REqT (cs.zip ms1) (cs.zip ms2) := by
  induction h with
  | nil => intro cs; cases cs <;> exact All2.nil
  | cons hm _ ih =>
    intro cs
    cases cs with
    | nil => exact All2.nil
    | cons c cs => exact All2.cons ⟨rfl, hm⟩ (ih cs)

/-- the member selected for `OptionalMethod` is at the same position on both sides -/
theorem find_zip_congr {ms1 ms2} (h : REqL ms1 ms2) (p : Option JClass → Bool) :
    ∀ (cs : List (Option JClass)),
      match (cs.zip ms1).find? (fun x => p x.1), (cs.zip ms2).find? (fun x => p x.1) with
      | some a, some b => REq a.2 b.2
      | Option.none, Option.none => True
      | _, _ => False := by
  induction h with
  | nil => intro cs; cases cs <;> simp
  | cons hm _ ih =>
    intro cs
    cases cs with
    | nil => simp
    | cons c cs =>
      simp only [List.zip_cons_cons, List.find?_cons]
      cases p c with
      | true => exact hm
      | false => exact ih cs

/-- `union()` builds the same kind of method on both sides -/
theorem unionSel_congr {clss hasNone ms1 ms2} (h : REqL ms1 ms2) :
    REq (unionSel clss hasNone ms1) (unionSel clss hasNone ms2) := by
  unfold unionSel
  simp only [h.length_eq]
  split
  · have := find_zip_congr h (fun c => c != some .null) clss
    revert this
    cases (clss.zip ms1).find? (fun x => x.1 != some .null) <;>
      cases (clss.zip ms2).find? (fun x => x.1 != some .null) <;> intro this
    · intro d; rfl
    · exact absurd this id
    · exact absurd this id
    · exact optional_congr this
  · split
    · exact unionByType_congr (zip_reqT h _)
    · exact union_congr h

/-! ### mappings -/
/-- the key method accepts every string key (e.g. plain `str`) -/
def KeyTotal (k : Meth) : Prop := ∀ s, ∃ v, run k (.str s) = .ok v

theorem collectItems_congr {kf} {fk gk fv gv : Py → Outcome Val}
    (hk : ∀ x, fk x = gk x) (hv : ∀ x, fv x = gv x) :
    ∀ kvs, collectItems kf fk fv kvs = collectItems kf gk gv kvs := by
  intro kvs; induction kvs with
  | nil => rfl
  | cons kv kvs ih => obtain ⟨k, v⟩ := kv; simp only [collectItems, hk, hv, ih]

/-- the two mapping methods run the same item loop (since the repair of row 30: key, then value, errors merged) -/
theorem collectItems_order' {fk fv : Py → Outcome Val} :
    ∀ kvs, collectItems true fk fv kvs = collectItems false fk fv kvs := by
  intro kvs; induction kvs with
  | nil => rfl
  | cons kv kvs ih =>
    obtain ⟨k, v⟩ := kv
    simp only [collectItems, ih, stepItem]

theorem collectItems_order {fk fv : Py → Outcome Val} (_hk : ∀ s, ∃ v, fk (.str s) = .ok v) :
    ∀ kvs, collectItems true fk fv kvs = collectItems false fk fv kvs := collectItems_order'

theorem mkItems_congr {fk gk fv gv : Py → Outcome Val}
    (hk : ∀ x, fk x = gk x) (hv : ∀ x, fv x = gv x) (kvs) : mkItems fk fv kvs = mkItems gk gv kvs := by
  unfold mkItems; simp only [hk, hv]

theorem asVal_dict (kvs : List (String × Py)) : asVal (.dict kvs) = .dict (asValK kvs) := by rw [asVal]

/-- when the item loop ends without error, every item was accepted and `mkItems` rebuilds the data -/
theorem mkItems_vals {fk fv : Py → Outcome Val}
    (hfk : ∀ x v, fk x = .ok v → v = asVal x) (hfv : ∀ x v, fv x = .ok v → v = asVal x) (kf : Bool) :
    ∀ kvs, (collectItems kf fk fv kvs).crash = Option.none → (collectItems kf fk fv kvs).errs = [] →
      mkItems fk fv kvs = asValK kvs := by
  intro kvs; induction kvs with
  | nil => intro _ _; simp [mkItems, asValK]
  | cons kv kvs ih =>
    obtain ⟨k, v⟩ := kv
    intro hc he
    simp only [collectItems] at hc he
    have key : ∀ (a b : Outcome Val), (stepItem kf k a b (collectItems kf fk fv kvs)).crash = Option.none →
        (stepItem kf k a b (collectItems kf fk fv kvs)).errs = [] →
        (∃ ka va, a = .ok ka ∧ b = .ok va) ∧ (collectItems kf fk fv kvs).crash = Option.none ∧
          (collectItems kf fk fv kvs).errs = [] := by
      intro a b h1 h2
      unfold stepItem at h1 h2
      cases kf <;> cases a <;> cases b <;> simp_all [setChild_ne_nil]
    obtain ⟨⟨ka, va, hka, hva⟩, hc', he'⟩ := key _ _ hc he
    have := ih hc' he'
    unfold mkItems at this ⊢
    simp only [List.filterMap_cons, hka, hva, this, asValK]
    rw [hfk _ _ hka, hfv _ _ hva]; simp [asVal]

theorem finishMap_congr {own acc v1 v2}
    (h : acc.crash = Option.none → acc.errs = [] → v1 = v2) : finishMap own acc v1 = finishMap own acc v2 := by
  unfold finishMap
  cases hc : acc.crash with
  | some c => rfl
  | none =>
    simp only
    cases own with
    | cons r rs => rfl
    | nil =>
      simp only
      cases he : acc.errs with
      | nil => simp [h hc he]
      | cons e es => simp

theorem mapping_congr {c k1 k2 v1 v2} (hk : REq k1 k2) (hv : REq v1 v2) : REq (.mapping c k1 v1) (.mapping c k2 v2) := by
  intro d; rw [run, run]
  cases d <;> try rfl
  case dict kvs =>
    simp only [onDict]
    rw [collectItems_congr (fun x => hk x) (fun x => hv x), mkItems_congr (fun x => hk x) (fun x => hv x)]

/-- `MappingCheckOnly` and `MappingMethod` agree when the key method cannot fail -/
theorem mapping_variants {c k1 k2 v1 v2} (hk : REq k1 k2) (hv : REq v1 v2)
    (hkc : k1.checkOnly = true) (hvc : v1.checkOnly = true) (hkt : KeyTotal k1) :
    REq (.mappingCheckOnly c k1 v1) (.mapping c k2 v2) := by
  intro d; rw [run, run]
  cases d <;> try rfl
  case dict kvs =>
    simp only [onDict]
    rw [← collectItems_congr (fun x => hk x) (fun x => hv x), ← mkItems_congr (fun x => hk x) (fun x => hv x),
        collectItems_order hkt]
    apply finishMap_congr
    intro hc he
    rw [asVal_dict, mkItems_vals (fun x v h => checkOnly_returnsData.1 k1 hkc x v h)
          (fun x v h => checkOnly_returnsData.1 v1 hvc x v h) false kvs hc he]

/-- `MappingCheckOnly` and `MappingMethod` agree (since the repair of row 30, whatever the key method) -/
theorem mapping_variants' {c k1 k2 v1 v2} (hk : REq k1 k2) (hv : REq v1 v2)
    (hkc : k1.checkOnly = true) (hvc : v1.checkOnly = true) :
    REq (.mappingCheckOnly c k1 v1) (.mapping c k2 v2) := by
  intro d; rw [run, run]
  cases d <;> try rfl
  case dict kvs =>
    simp only [onDict]
    rw [← collectItems_congr (fun x => hk x) (fun x => hv x), ← mkItems_congr (fun x => hk x) (fun x => hv x),
        collectItems_order']
    apply finishMap_congr
    intro hc he
    rw [asVal_dict, mkItems_vals (fun x v h => checkOnly_returnsData.1 k1 hkc x v h)
          (fun x v h => checkOnly_returnsData.1 v1 hvc x v h) false kvs hc he]

theorem mappingSel_noCopy' {o : DOpts} {c k1 k2 v1 v2} (hk : REq k1 k2) (hv : REq v1 v2) :
    REq (mappingSel { o with noCopy := true } c k1 v1) (mappingSel { o with noCopy := false } c k2 v2) := by
  unfold mappingSel
  simp only [Bool.true_and, Bool.false_and, Bool.false_eq_true, if_false]
  split
  · rename_i hco
    rw [Bool.and_eq_true] at hco
    exact mapping_variants' hk hv hco.1 hco.2
  · exact mapping_congr hk hv

theorem mappingSel_noCopy {o : DOpts} {c k1 k2 v1 v2} (hk : REq k1 k2) (hv : REq v1 v2)
    (hkt : k1.checkOnly = true → KeyTotal k1) :
    REq (mappingSel { o with noCopy := true } c k1 v1) (mappingSel { o with noCopy := false } c k2 v2) := by
  unfold mappingSel
  simp only [Bool.true_and, Bool.false_and, Bool.false_eq_true, if_false]
  split
  · rename_i hco
    rw [Bool.and_eq_true] at hco
    exact mapping_variants hk hv hco.1 hco.2 (hkt hco.1)
  · exact mapping_congr hk hv

/-! ### objects -/
abbrev REqF := All2 (fun (a b : FieldInfo × Meth) => a.1 = b.1 ∧ REq a.2 b.2)

@[simp] theorem runFields_nil (u kvs) : runFields u [] kvs = {} := by rw [runFields]
@[simp] theorem runFields_cons (u f m fs kvs) :
    runFields u ((f, m) :: fs) kvs
      = stepField f (u && f.fbod) ((lookupKey kvs f.alias).map (fun x => run m x)) (runFields u fs kvs) := by
  rw [runFields]
@[simp] theorem aliasesM_nil : aliasesM [] = [] := by rw [aliasesM]
@[simp] theorem aliasesM_cons (f m fs) : aliasesM ((f, m) :: fs) = f.alias :: aliasesM fs := by rw [aliasesM]
@[simp] theorem infosM_nil : infosM [] = [] := by rw [infosM]
@[simp] theorem infosM_cons (f m fs) : infosM ((f, m) :: fs) = f :: infosM fs := by rw [infosM]

theorem runFields_congr {fs1 fs2} (h : REqF fs1 fs2) (u kvs) : runFields u fs1 kvs = runFields u fs2 kvs := by
  induction h with
  | nil => rfl
  | @cons a b l1 l2 hab _ ih =>
    obtain ⟨f1, m1⟩ := a; obtain ⟨f2, m2⟩ := b
    obtain ⟨hf, hm⟩ := hab
    simp only at hf hm; subst hf
    simp only [runFields_cons, ih]
    cases lookupKey kvs f1.alias <;> simp [hm _]

theorem aliasesM_congr {fs1 fs2} (h : REqF fs1 fs2) : aliasesM fs1 = aliasesM fs2 := by
  induction h with
  | nil => rfl
  | @cons a b l1 l2 hab _ ih =>
    obtain ⟨f1, m1⟩ := a; obtain ⟨f2, m2⟩ := b
    have : f1 = f2 := hab.1
    simp only [aliasesM_cons, ih, this]

theorem infosM_congr {fs1 fs2} (h : REqF fs1 fs2) : infosM fs1 = infosM fs2 := by
  induction h with
  | nil => rfl
  | @cons a b l1 l2 hab _ ih =>
    obtain ⟨f1, m1⟩ := a; obtain ⟨f2, m2⟩ := b
    have : f1 = f2 := hab.1
    simp only [infosM_cons, ih, this]

theorem obj_congr {ci ctor c ap fs1 fs2} (h : REqF fs1 fs2) :
    REq (.obj ci ctor c ap fs1) (.obj ci ctor c ap fs2) := by
  intro d; rw [run, run]
  cases d <;> try rfl
  case dict kvs => simp only [onDict, runFields_congr h, aliasesM_congr h, infosM_congr h]

theorem simpleObj_congr {ci ctor fs1 fs2} (h : REqF fs1 fs2) :
    REq (.simpleObj ci ctor fs1) (.simpleObj ci ctor fs2) := by
  intro d; rw [run, run]
  cases d <;> try rfl
  case dict kvs => simp only [onDict, runFields_congr h, aliasesM_congr h, infosM_congr h]

/-- the values an error-free field loop over check-only methods collects: the data, by field -/
def valsOf (fs : List (FieldInfo × Meth)) (kvs : List (String × Py)) : List (String × Val) :=
  fs.filterMap (fun fm => (lookupKey kvs fm.1.alias).map (fun v => (fm.1.name, asVal v)))

def AllCheckOnly (fs : List (FieldInfo × Meth)) : Prop := ∀ fm ∈ fs, fm.2.checkOnly = true
def NoFbod (fs : List (FieldInfo × Meth)) : Prop := ∀ fm ∈ fs, fm.1.fbod = false

theorem runFields_vals {fs : List (FieldInfo × Meth)} (hco : AllCheckOnly fs) (hnf : NoFbod fs) (u kvs) :
    (runFields u fs kvs).crash = Option.none → (runFields u fs kvs).errs = [] →
      (runFields u fs kvs).vals = valsOf fs kvs := by
  induction fs with
  | nil => intro _ _; simp [valsOf]
  | cons fm fs ih =>
    obtain ⟨f, m⟩ := fm
    have hco' : AllCheckOnly fs := fun x hx => hco x (List.mem_cons_of_mem _ hx)
    have hnf' : NoFbod fs := fun x hx => hnf x (List.mem_cons_of_mem _ hx)
    have hm : m.checkOnly = true := hco (f, m) (List.mem_cons_self ..)
    have hfb : f.fbod = false := hnf (f, m) (List.mem_cons_self ..)
    intro hc he
    simp only [runFields_cons, hfb, Bool.and_false] at hc he ⊢
    unfold valsOf
    rw [List.filterMap_cons]
    cases hl : lookupKey kvs f.alias with
    | none =>
      simp only [hl, Option.map_none, stepField] at hc he ⊢
      by_cases hreq : f.required = true
      · simp only [hreq, if_true] at he; exact absurd he (setChild_ne_nil _ _ _)
      · simp only [hreq, if_false] at hc he ⊢
        exact ih hco' hnf' hc he
    | some x =>
      simp only [hl, Option.map_some, stepField] at hc he ⊢
      cases hr : run m x with
      | crash c => simp [hr] at hc
      | invalid e =>
        simp only [hr, Bool.not_false, Bool.or_true, if_true] at he
        exact absurd he (setChild_ne_nil _ _ _)
      | ok v =>
        simp only [hr] at hc he ⊢
        have := ih hco' hnf' hc he
        unfold valsOf at this
        rw [this, checkOnly_returnsData.1 m hm x v hr]

/-- looking a field up in the raw data passed to the constructor -/
theorem find_rawVals (kvs : List (String × Py)) (n : String) :
    (rawVals kvs).find? (fun kv => kv.1 == n) = (lookupKey kvs n).map (fun v => (n, asVal v)) := by
  unfold rawVals lookupKey
  induction kvs with
  | nil => rfl
  | cons kv kvs ih =>
    obtain ⟨k, v⟩ := kv
    simp only [List.map_cons, List.find?_cons]
    by_cases h : (k == n) = true
    · have : k = n := by simpa using h
      subst this; simp
    · have h' : (k == n) = false := by simpa using h
      simp only [h']; exact ih

def fieldNames (fs : List (FieldInfo × Meth)) : List String := fs.map (fun fm => fm.1.name)

/-- looking a field up in the values collected by the loop (names are distinct) -/
theorem find_valsOf {fs : List (FieldInfo × Meth)} (hn : (fieldNames fs).Nodup) (kvs) :
    ∀ fm ∈ fs, (valsOf fs kvs).find? (fun kv => kv.1 == fm.1.name)
      = (lookupKey kvs fm.1.alias).map (fun v => (fm.1.name, asVal v)) := by
  induction fs with
  | nil => intro fm h; cases h
  | cons g fs ih =>
    intro fm hfm
    unfold fieldNames at hn
    rw [List.map_cons, List.nodup_cons] at hn
    unfold valsOf
    rw [List.filterMap_cons]
    rcases List.mem_cons.1 hfm with rfl | hmem
    · -- the field itself comes first
      cases hl : lookupKey kvs fm.1.alias with
      | some v => simp
      | none =>
        simp only [Option.map_none]
        -- no later entry carries this name
        apply List.find?_eq_none.2
        intro kv hkv
        obtain ⟨g', hg', hgv⟩ := List.mem_filterMap.1 hkv
        cases hl' : lookupKey kvs g'.1.alias with
        | none => simp [hl'] at hgv
        | some w =>
          simp only [hl', Option.map_some, Option.some.injEq] at hgv
          subst hgv
          intro heq
          have : g'.1.name = fm.1.name := by simpa using heq
          exact hn.1 (List.mem_map.2 ⟨g', hg', this⟩)
    · have hne : g.1.name ≠ fm.1.name := fun h => hn.1 (List.mem_map.2 ⟨fm, hmem, h.symm⟩)
      have := ih hn.2 fm hmem
      unfold valsOf at this
      cases hl : lookupKey kvs g.1.alias with
      | none => simpa [hl] using this
      | some w =>
        simp only [Option.map_some, List.find?_cons]
        have : (g.1.name == fm.1.name) = false := by simpa using hne
        simp only [this]
        assumption

theorem filterMap_congr' {α β} {f g : α → Option β} : ∀ {l : List α}, (∀ a ∈ l, f a = g a) → l.filterMap f = l.filterMap g
  | [], _ => rfl
  | a :: l, h => by
    rw [List.filterMap_cons, List.filterMap_cons, h a (List.mem_cons_self ..),
        filterMap_congr' (fun b hb => h b (List.mem_cons_of_mem _ hb))]

theorem simpleOk_spec {fs : List (FieldInfo × Meth)} (h : simpleOk fs = true) :
    ∀ fm ∈ fs, fm.2.checkOnly = true ∧ fm.1.alias = fm.1.name ∧ fm.1.fbod = false := by
  induction fs with
  | nil => intro fm hm; cases hm
  | cons g fs ih =>
    obtain ⟨f, m⟩ := g
    unfold simpleOk at h
    simp only [Bool.and_eq_true, beq_iff_eq, Bool.not_eq_true'] at h
    intro fm hfm
    rcases List.mem_cons.1 hfm with rfl | hmem
    · exact ⟨h.1.1.1.1, h.1.1.1.2, h.1.1.2⟩
    · exact ih h.2 fm hmem

theorem simpleOk_noDeps : ∀ {fs : List (FieldInfo × Meth)}, simpleOk fs = true → ∀ f ∈ infosM fs, f.requiredBy = []
  | [], _, f, hf => by rw [infosM] at hf; cases hf
  | (g, m) :: fs, h, f, hf => by
    unfold simpleOk at h
    simp only [Bool.and_eq_true, beq_iff_eq, Bool.not_eq_true', List.isEmpty_iff] at h
    rw [infosM] at hf
    rcases List.mem_cons.1 hf with rfl | hm
    · exact h.1.2
    · exact simpleOk_noDeps h.2 f hm

theorem mem_infosM {fs : List (FieldInfo × Meth)} {f : FieldInfo} (h : f ∈ infosM fs) : ∃ fm ∈ fs, fm.1 = f := by
  induction fs with
  | nil => simp at h
  | cons g fs ih =>
    obtain ⟨f', m⟩ := g
    simp only [infosM_cons, List.mem_cons] at h
    rcases h with rfl | h
    · exact ⟨(f, m), List.mem_cons_self .., rfl⟩
    · obtain ⟨fm, hfm, hf⟩ := ih h; exact ⟨fm, List.mem_cons_of_mem _ hfm, hf⟩

theorem dictErrors_nil {c : Constraints} (h : c.hasDict = false) (n : Nat) : c.dictErrors n = [] := by
  unfold Constraints.hasDict at h
  simp only [Bool.or_eq_false_iff] at h
  unfold Constraints.dictErrors optRule
  cases hmn : c.minProps <;> cases hmx : c.maxProps <;> simp_all

theorem addUnexpected_eq_nil {ks errs} (h : addUnexpected ks errs = []) : errs = [] := by
  unfold addUnexpected at h
  induction ks generalizing errs with
  | nil => simpa using h
  | cons k ks ih =>
    rw [List.foldl_cons] at h
    exact absurd (ih h) (setChild_ne_nil _ _ _)

/-- the constructor receives the same arguments from both object methods -/
theorem construct_eq {ci : ClassInfo} {fs : List (FieldInfo × Meth)} (hk : ci.kind ≠ .typedDict)
    (hs : simpleOk fs = true) (hn : (fieldNames fs).Nodup) (kvs) :
    construct ci (infosM fs) (rawVals kvs) = construct ci (infosM fs) (valsOf fs kvs) := by
  have key : (infosM fs).filterMap (pickField (rawVals kvs)) = (infosM fs).filterMap (pickField (valsOf fs kvs)) := by
    apply filterMap_congr'
    intro f hf
    obtain ⟨fm, hfm, rfl⟩ := mem_infosM hf
    unfold pickField
    rw [find_rawVals, find_valsOf hn kvs fm hfm, (simpleOk_spec hs fm hfm).2.1]
  unfold construct
  cases hkind : ci.kind with
  | typedDict => exact absurd hkind hk
  | dataclass => simp only [key]
  | namedTuple => simp only [key]

/-- `SimpleObjectMethod` and `ObjectMethod` agree wherever the former is chosen (non-TypedDict classes) -/
theorem simple_vs_obj {ci ctor c fs} (hk : ci.kind ≠ .typedDict) (hc : c.hasDict = false)
    (hs : simpleOk fs = true) (hn : (fieldNames fs).Nodup) :
    REq (.simpleObj ci ctor fs) (.obj ci ctor c false fs) := by
  intro d; rw [run, run]
  cases d <;> try rfl
  case dict kvs =>
    simp only [onDict]
    have hco : AllCheckOnly fs := fun fm h => (simpleOk_spec hs fm h).1
    have hnf : NoFbod fs := fun fm h => (simpleOk_spec hs fm h).2.2
    -- without fall-back the flag passed to the field loop is irrelevant
    have hrf : runFields true fs kvs = runFields false fs kvs := by
      clear hn hs hco
      induction fs with
      | nil => rfl
      | cons g fs ih =>
        obtain ⟨f, m⟩ := g
        have hfb : f.fbod = false := hnf (f, m) (List.mem_cons_self ..)
        simp only [runFields_cons, hfb, Bool.and_false, ih (fun x hx => hnf x (List.mem_cons_of_mem _ hx))]
    rw [hrf, dictErrors_nil hc]
    unfold finishSimple finishObj
    cases hcr : (runFields false fs kvs).crash with
    | some cr => rfl
    | none =>
      have hkd : (ci.kind != ObjKind.typedDict) = true := by simpa using hk
      simp only [hkd, Bool.and_true, Bool.not_false, Bool.and_false, Bool.false_and,
        Bool.false_eq_true, if_false, List.isEmpty_nil, depMissing_nil (simpleOk_noDeps hs) kvs, addDepMissing, List.foldl_nil]
      -- both sides compute the same error list
      generalize herrs : (if (kvs.length != (runFields false fs kvs).count) = true then
          addUnexpected (unexpectedKeys (aliasesM fs) kvs) (runFields false fs kvs).errs
        else (runFields false fs kvs).errs) = errs
      cases errs with
      | cons e es => simp
      | nil =>
        simp only [List.isEmpty_nil, if_true]
        have hnil : (runFields false fs kvs).errs = [] := by
          split at herrs
          · exact addUnexpected_eq_nil herrs
          · exact herrs
        rw [runFields_vals hco hnf false kvs hcr hnil, construct_eq hk hs hn]

/-! ### the theorem -/
def distinctStrs : List String → Bool
  | [] => true
  | s :: ss => !ss.contains s && distinctStrs ss

theorem nodup_of_distinctStrs : ∀ {l : List String}, distinctStrs l = true → l.Nodup
  | [], _ => List.nodup_nil
  | s :: ss, h => by
    unfold distinctStrs at h
    simp only [Bool.and_eq_true, Bool.not_eq_true', List.contains_eq_mem, decide_eq_false_iff_not] at h
    exact List.nodup_cons.2 ⟨h.1, nodup_of_distinctStrs h.2⟩

/-- a mapping key type on which the compiled key method cannot fail for a string key, or which is
    never check-only -/
def Ty.plainKey : Ty → Bool
  | .str => true
  | .literal _ | .enum _ _ => true
  | .newtype _ t => t.plainKey
  | _ => false

mutual
/-- scope of the theorem: no TypedDict, distinct field names (any key type, since the repair of row 30) -/
def Ty.scope : Ty → Bool
  | .list t | .set t | .frozenset t | .vtuple t | .newtype _ t | .ann _ t => t.scope
  | .tuple ts | .union ts => scopeL ts
  | .mapping k v => k.scope && v.scope
  | .obj ci fs => ci.kind != .typedDict && distinctStrs (namesT fs) && scopeF fs
  | _ => true
termination_by structural t => t
def scopeL : List Ty → Bool
  | [] => true
  | t :: ts => t.scope && scopeL ts
termination_by structural ts => ts
def scopeF : List (FieldInfo × Ty) → Bool
  | [] => true
  | (_, t) :: fs => t.scope && scopeF fs
termination_by structural fs => fs
def namesT : List (FieldInfo × Ty) → List String
  | [] => []
  | (f, _) :: fs => f.name :: namesT fs
termination_by structural fs => fs
end

theorem REq.symm {m1 m2} (h : REq m1 m2) : REq m2 m1 := fun d => (h d).symm
theorem REq.trans {m1 m2 m3} (h1 : REq m1 m2) (h2 : REq m2 m3) : REq m1 m3 := fun d => (h1 d).trans (h2 d)

theorem REqF.symm {fs1 fs2} (h : REqF fs1 fs2) : REqF fs2 fs1 := by
  induction h with
  | nil => exact All2.nil
  | cons hab _ ih => exact All2.cons ⟨hab.1.symm, hab.2.symm⟩ ih

theorem fieldNames_eq_of_REqF {fs1 fs2} (h : REqF fs1 fs2) : fieldNames fs1 = fieldNames fs2 := by
  induction h with
  | nil => rfl
  | @cons a b l1 l2 hab _ ih =>
    unfold fieldNames at ih ⊢
    have : a.1 = b.1 := hab.1
    simp only [List.map_cons, ih, this]

theorem strErrors_empty (s : String) : ({} : Constraints).strErrors s = [] := by
  simp [Constraints.strErrors, optRule]

theorem keyTotal_str : KeyTotal .str := by
  intro s; rw [run]; simp [runStr, strErrors_empty, constrained]

/-- a plain key type compiles (without inherited constraints) to a method that cannot fail on a
    string key, or to one that is never check-only -/
theorem plainKey_spec (o : DOpts) : ∀ k, k.plainKey = true →
    ((compile o {} k).checkOnly = true → KeyTotal (compile o {} k)) := by
  apply Ty.plainKey.induct
    (motive := fun k => k.plainKey = true → ((compile o {} k).checkOnly = true → KeyTotal (compile o {} k)))
  · intro _ _; rw [compile]; simp [Constraints.hasStr]; exact keyTotal_str
  · intro vs _ h; rw [compile] at h; simp [Meth.checkOnly] at h
  · intro c ms _ h; rw [compile] at h; simp [Meth.checkOnly] at h
  · intro n t ih hp; rw [compile]; exact ih (by simpa [Ty.plainKey] using hp)
  · intro t h1 h2 h3 h4 hp
    cases t <;> simp_all [Ty.plainKey]

theorem fieldNames_compileF (o : DOpts) : ∀ fs, fieldNames (compileF o fs) = namesT fs
  | [] => by rw [compileF, namesT]; rfl
  | (f, t) :: fs => by
    rw [compileF, namesT]
    unfold fieldNames at *
    simp only [List.map_cons, withFbod]
    rw [← fieldNames_compileF o fs]; rfl

theorem ctorOf_noCopy (o : DOpts) (b ci) : ctorOf { o with noCopy := b } ci = ctorOf o ci := rfl

/-- `object()`'s choice under the two settings of `no_copy` -/
theorem objSel_noCopy {o : DOpts} {ci c fs1 fs2} (hk : ci.kind ≠ .typedDict) (h : REqF fs1 fs2)
    (hn : (fieldNames fs1).Nodup) :
    REq (objSel { o with noCopy := true } ci c fs1) (objSel { o with noCopy := false } ci c fs2) := by
  have hkb : (ci.kind == ObjKind.typedDict) = false := by simpa using hk
  have hn2 : (fieldNames fs2).Nodup := fieldNames_eq_of_REqF h ▸ hn
  unfold objSel
  simp only [hkb, ctorOf_noCopy, Bool.not_false, Bool.true_or, Bool.and_true]
  by_cases h1 : (!c.hasDict && (false == o.additionalProperties) && simpleOk fs1) = true
  · by_cases h2 : (!c.hasDict && (false == o.additionalProperties) && simpleOk fs2) = true
    · simp only [h1, h2, if_true]; exact simpleObj_congr h
    · simp only [h1, h2, if_true, if_false]
      simp only [Bool.and_eq_true, Bool.not_eq_true', beq_iff_eq] at h1
      obtain ⟨⟨hc, hap⟩, hs⟩ := h1
      rw [← hap]
      exact (simple_vs_obj hk hc hs hn).trans (obj_congr h)
  · by_cases h2 : (!c.hasDict && (false == o.additionalProperties) && simpleOk fs2) = true
    · simp only [h1, h2, if_true, if_false]
      simp only [Bool.and_eq_true, Bool.not_eq_true', beq_iff_eq] at h2
      obtain ⟨⟨hc, hap⟩, hs⟩ := h2
      rw [← hap]
      exact ((simple_vs_obj hk hc hs hn2).trans (obj_congr h.symm)).symm
    · simp only [h1, h2, if_false]; exact obj_congr h

/-- **C08, clause `no_copy`** (model side): within `Ty.scope`, the compiled method behaves the same
    whatever the value of `no_copy` — same value, same error tree, same exception -/
theorem noCopy_independent (o : DOpts) :
    (∀ cs t, t.scope = true →
      REq (compile { o with noCopy := true } cs t) (compile { o with noCopy := false } cs t)) ∧
    (∀ fs, scopeF fs = true →
      REqF (compileF { o with noCopy := true } fs) (compileF { o with noCopy := false } fs)) ∧
    (∀ cs ts, scopeL ts = true →
      REqL (compileL { o with noCopy := true } cs ts) (compileL { o with noCopy := false } cs ts)) := by
  apply compile.mutual_induct
  · intro cs _ d; rw [compile, compile]
  · intro cs _ d; rw [compile, compile]
  · intro cs h _ d; rw [compile, compile]
  · intro cs h _ d; rw [compile, compile]
  · intro cs h _ d; rw [compile, compile]
  · intro cs h _ d; rw [compile, compile]
  · intro cs h _ d; rw [compile, compile]
  · intro cs h _ d; rw [compile, compile]
  · intro cs _ d; rw [compile, compile]
  · intro cs t ih hs; rw [Ty.scope] at hs; rw [compile, compile]; exact listSel_noCopy (ih hs)
  · intro cs t ih hs; rw [Ty.scope] at hs; rw [compile, compile]; exact set_congr (ih hs)
  · intro cs t ih hs; rw [Ty.scope] at hs; rw [compile, compile]; exact frozenset_congr (listSel_noCopy (ih hs))
  · intro cs t ih hs; rw [Ty.scope] at hs; rw [compile, compile]; exact vtuple_congr (listSel_noCopy (ih hs))
  · intro cs ts ih hs; rw [Ty.scope] at hs; rw [compile, compile]; exact tuple_congr (ih hs)
  · intro cs k v ihk ihv hs
    rw [Ty.scope] at hs
    simp only [Bool.and_eq_true] at hs
    rw [compile, compile]
    exact mappingSel_noCopy' (ihk hs.1) (ihv hs.2)
  · intro cs ts ih hs; rw [Ty.scope] at hs; rw [compile, compile]; exact unionSel_congr (ih hs)
  · intro cs vs _ d; rw [compile, compile]
  · intro cs c ms _ d; rw [compile, compile]
  · intro cs n t ih hs; rw [Ty.scope] at hs; rw [compile, compile]; exact ih hs
  · intro cs c t ih hs; rw [Ty.scope] at hs; rw [compile, compile]; exact ih hs
  · intro cs ci fs ih hs
    rw [Ty.scope] at hs
    simp only [Bool.and_eq_true, bne_iff_ne, ne_eq] at hs
    rw [compile, compile]
    refine objSel_noCopy hs.1.1 (ih hs.2) ?_
    rw [fieldNames_compileF]; exact nodup_of_distinctStrs hs.1.2
  · intro cs _; rw [compileL, compileL]; exact All2.nil
  · intro cs t ts iht ihts hs
    rw [scopeL] at hs; simp only [Bool.and_eq_true] at hs
    rw [compileL, compileL]; exact All2.cons (iht hs.1) (ihts hs.2)
  · intro _; rw [compileF, compileF]; exact All2.nil
  · intro f t fs iht ihfs hs
    rw [scopeF] at hs; simp only [Bool.and_eq_true] at hs
    rw [compileF, compileF]
    exact All2.cons ⟨rfl, iht hs.1⟩ (ihfs hs.2)

/-- `deserialize(..., no_copy=True)` and `deserialize(..., no_copy=False)` give the same outcome -/
theorem C08_no_copy (o : DOpts) (cs : Constraints) (t : Ty) (d : Py) (h : t.scope = true)
    (hf : (compile { o with noCopy := true } cs t).failure? = (compile { o with noCopy := false } cs t).failure?) :
    deserialize { o with noCopy := true } cs t d = deserialize { o with noCopy := false } cs t d := by
  unfold deserialize
  simp only [hf, (noCopy_independent o).1 cs t h d]

#print axioms noCopy_independent

/-- non-vacuity: a nested type inside the scope, on which the two settings compile different trees -/
example : (Ty.obj { name := "C" } [({ name := "a", alias := "a", required := true }, .list .int),
      ({ name := "m", alias := "m", required := false, dflt := some .emptyDict }, .mapping .str (.list .str))]).scope = true := by
  decide

end Api
