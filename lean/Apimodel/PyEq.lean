import Apimodel.Types
import Apimodel.Num
/-! # Python equality / hashability on data and values -/
namespace Api

/-- the number a Python scalar compares equal to (`True == 1 == 1.0`) -/
def Py.asNum? : Py → Option Num
  | .bool b => some (.int (if b then 1 else 0))
  | .int i => some (.int i)
  | .float f => some (.flt f)
  | _ => none

def Lit.asNum? : Lit → Option Num
  | .bool b => some (.int (if b then 1 else 0))
  | .int i => some (.int i)
  | .float f => some (.flt f)
  | _ => none

/-- `data == literal` for a hashable scalar datum (dict lookup in `LiteralMethod`) -/
def litMatches (d : Py) (l : Lit) : Bool :=
  match d, l with
  | .null, .null => true
  | .str a, .str b => a == b
  | d, l =>
    match d.asNum?, l.asNum? with
    | some a, some b => a.eq b
    | _, _ => false

/-- is the datum hashable? (`value_map[data]` raises `TypeError` otherwise) -/
def Py.hashable : Py → Bool
  | .list _ | .dict _ | .dictNS _ => false
  | .other _ => true          -- tuples / bytes / plain objects; unhashable ones are not generated
  | _ => true

/-- the image of a literal value as a typed value -/
def Lit.toVal : Lit → Val
  | .null => .null | .bool b => .bool b | .int i => .int i | .float f => .float f | .str s => .str s

def Lit.jclass : Lit → JClass
  | .null => .null | .bool _ => .bool | .int _ => .int | .float _ => .float | .str _ => .str

mutual
/-- the datum itself as a value (what check-only methods and `Any` return) -/
def asVal : Py → Val
  | .null => .null | .bool b => .bool b | .int i => .int i | .float f => .float f | .str s => .str s
  | .list xs => .list (asValL xs)
  | .dict kvs => .dict (asValK kvs)
  | .dictNS kvs => .dict (asValKK kvs)
  | .other c => .other c
termination_by structural d => d
def asValL : List Py → List Val
  | [] => []
  | x :: xs => asVal x :: asValL xs
termination_by structural xs => xs
def asValK : List (String × Py) → List (Val × Val)
  | [] => []
  | (k, v) :: kvs => (.str k, asVal v) :: asValK kvs
termination_by structural kvs => kvs
def asValKK : List (Py × Py) → List (Val × Val)
  | [] => []
  | (k, v) :: kvs => (asVal k, asVal v) :: asValKK kvs
termination_by structural kvs => kvs
end

def Val.asNum? : Val → Option Num
  | .bool b => some (.int (if b then 1 else 0))
  | .int i => some (.int i)
  | .float f => some (.flt f)
  | _ => none

mutual
/-- Python `==` on deserialized values -/
def Val.pyEq : Val → Val → Bool
  | .null, .null => true
  | .str a, .str b => a == b
  | .list a, .list b => pyEqL a b
  | .tuple a, .tuple b => pyEqL a b
  | .enumMember c m, .enumMember c' m' => c == c' && m == m'
  | .obj c fs, .obj c' fs' => c == c' && pyEqF fs fs'
  | .ntuple _ fs, .ntuple _ fs' => pyEqF fs fs'
  | .frozenset a, .frozenset b => subsetL a b && a.length == b.length
  | .set a, .set b => subsetL a b && a.length == b.length
  | .frozenset a, .set b => subsetL a b && a.length == b.length
  | .set a, .frozenset b => subsetL a b && a.length == b.length
  | a, b =>
    match a.asNum?, b.asNum? with
    | some x, some y => x.eq y
    | _, _ => false
termination_by structural a => a
def pyEqL : List Val → List Val → Bool
  | [], [] => true
  | a :: as, b :: bs => a.pyEq b && pyEqL as bs
  | _, _ => false
termination_by structural as => as
/-- every element of the first (duplicate-free) list equals some element of the second -/
def subsetL : List Val → List Val → Bool
  | [], _ => true
  | a :: as, bs => bs.any (fun b => a.pyEq b) && subsetL as bs
termination_by structural as => as
def pyEqF : List (String × Val) → List (String × Val) → Bool
  | [], [] => true
  | (k, a) :: as, (k', b) :: bs => k == k' && a.pyEq b && pyEqF as bs
  | _, _ => false
termination_by structural as => as
end

-- can the value be put in a `set` (`TypeError: unhashable type` otherwise)
mutual
def Val.hashable : Val → Bool
  | .list _ | .set _ | .dict _ | .obj _ _ => false
  | .tuple xs => hashableL xs
  | .ntuple _ fs => hashableF fs
  | _ => true
termination_by structural v => v
def hashableL : List Val → Bool
  | [] => true
  | x :: xs => x.hashable && hashableL xs
termination_by structural xs => xs
def hashableF : List (String × Val) → Bool
  | [] => true
  | (_, x) :: xs => x.hashable && hashableF xs
termination_by structural xs => xs
end

/-- `set.add` -/
def setAdd (v : Val) (s : List Val) : List Val := if s.any (fun w => w.pyEq v) then s else s ++ [v]

end Api
