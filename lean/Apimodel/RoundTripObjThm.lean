import Apimodel.RoundTripThm
/-!
# C05 for dataclasses: deserialize ∘ serialize = id on typed values, objects included

`C05_roundtrip_partial` covers the index-keyed fragment.  Here the fragment also has dataclasses (raw constructor,
distinct field names and aliases, any nesting with lists / tuples / NewTypes), under the default serialization options
(`exclude_none = exclude_defaults = False`, any `additional_properties`).
-/
namespace Api

mutual
/-- `v` is a value of type `T` (fragment: primitives, lists, both tuple kinds, NewTypes, dataclasses) -/
def HasTypeO : Ty → Val → Bool
  | .null, v => match v with | .null => true | _ => false
  | .bool, v => match v with | .bool _ => true | _ => false
  | .int, v => match v with | .int _ => true | _ => false
  | .float, v => match v with | .float _ => true | _ => false
  | .str, v => match v with | .str _ => true | _ => false
  | .list t, v => onListVal v (fun xs => xs.all (fun x => HasTypeO t x))
  | .vtuple t, v => onTupleVal v (fun xs => xs.all (fun x => HasTypeO t x))
  | .tuple ts, v => onTupleVal v (fun xs => hasTypeZipO ts xs)
  | .newtype _ t, v => HasTypeO t v
  | .obj ci fs, v => match v with
      | .obj n fvs => n == ci.name && fvs.map (·.1) == namesT fs && hasTypeFO fs fvs
      | _ => false
  | _, _ => false
termination_by structural t => t
def hasTypeZipO : List Ty → List Val → Bool
  | [], [] => true
  | t :: ts, x :: xs => HasTypeO t x && hasTypeZipO ts xs
  | _, _ => false
termination_by structural ts => ts
/-- every declared field has a value of its type among the attributes -/
def hasTypeFO : List (FieldInfo × Ty) → List (String × Val) → Bool
  | [], _ => true
  | (f, t) :: fs, fvs =>
      (match fvs.find? (fun kv => kv.1 == f.name) with
       | some kv => HasTypeO t kv.2
       | Option.none => false) && hasTypeFO fs fvs
termination_by structural fs => fs
end

mutual
/-- scope: dataclasses with the generated constructor, distinct field names and distinct aliases -/
def Ty.rtO : Ty → Bool
  | .null | .bool | .int | .float | .str => true
  | .list t | .vtuple t | .newtype _ t => t.rtO
  | .tuple ts => rtOL ts
  | .obj ci fs => ci.kind == .dataclass && distinctStrs (namesT fs) && distinctStrs (aliasesOf fs) && rtOF fs
  | _ => false
termination_by structural t => t
def rtOL : List Ty → Bool
  | [] => true
  | t :: ts => t.rtO && rtOL ts
termination_by structural ts => ts
def rtOF : List (FieldInfo × Ty) → Bool
  | [] => true
  | (_, t) :: fs => t.rtO && rtOF fs
termination_by structural fs => fs
end

/-- the attribute values of the declared fields, in declaration order -/
def valsFO (fs : List (FieldInfo × Ty)) (fvs : List (String × Val)) : List (String × Val) :=
  fs.filterMap (fun ft => (fvs.find? (fun kv => kv.1 == ft.1.name)).map (fun kv => (ft.1.name, kv.2)))

/-- what the field loop of serialization and of deserialization do on the fields `fs` of the object `.obj n fvs` -/
def FieldsRT (o : DOpts) (so : SOpts) (fs : List (FieldInfo × Ty)) (n : String) (fvs : List (String × Val)) : Prop :=
  ∃ js : List (String × Py), serFields so false fs (.obj n fvs) = .ok js ∧ js.map (·.1) = aliasesOf fs ∧
    ∀ kvs, (∀ p ∈ js, lookupKey kvs p.1 = some p.2) →
      runFields true (compileF o fs) kvs = { vals := valsFO fs fvs, errs := [], count := fs.length, crash := Option.none }

theorem omitted_default (so : SOpts) (h1 : so.excludeNone = false) (h2 : so.excludeDefaults = false) (sf : SField) (v : Val) :
    omitted so sf v = false := by
  unfold omitted; simp [h1, h2]

/-! ### list lemmas -/
theorem lookupKey_of_mem_nodup : ∀ {js : List (String × Py)}, (js.map (·.1)).Nodup → ∀ p ∈ js, lookupKey js p.1 = some p.2
  | (k, j) :: js, hn, p, hp => by
    rw [List.map_cons, List.nodup_cons] at hn
    unfold lookupKey
    rcases List.mem_cons.1 hp with rfl | hp'
    · simp
    · have hne : k ≠ p.1 := fun h => hn.1 (h ▸ List.mem_map.2 ⟨p, hp', rfl⟩)
      have := lookupKey_of_mem_nodup hn.2 p hp'
      unfold lookupKey at this
      simp [List.find?_cons, hne, this]

theorem find_in_tail {α} {n n1 : String} {x1 : α} {rest : List (String × α)} (h : n ≠ n1) :
    ((n1, x1) :: rest).find? (fun kv => kv.1 == n) = rest.find? (fun kv => kv.1 == n) := by
  simp [List.find?_cons, Ne.symm h]

/-- looking every name up in an association list with these very names, all different, rebuilds the list -/
theorem rebuild_by_names : ∀ (fvs : List (String × Val)), (fvs.map (·.1)).Nodup →
    (fvs.map (·.1)).filterMap (fun n => (fvs.find? (fun kv => kv.1 == n)).map (fun kv => (n, kv.2))) = fvs
  | [], _ => rfl
  | (n1, x1) :: rest, hn => by
    rw [List.map_cons, List.nodup_cons] at hn
    rw [List.map_cons, List.filterMap_cons]
    simp only [List.find?_cons, beq_self_eq_true, Option.map_some]
    congr 1
    rw [filterMap_congr' (g := fun n => (rest.find? (fun kv => kv.1 == n)).map (fun kv => (n, kv.2)))]
    · exact rebuild_by_names rest hn.2
    · intro n hnm
      have hne : n ≠ n1 := fun h => hn.1 (h ▸ hnm)
      have hb : (n1 == n) = false := by simpa using Ne.symm hne
      rw [hb]

theorem depMissing_nil_present : ∀ (infos : List FieldInfo) (kvs : List (String × Py)),
    (∀ f ∈ infos, (lookupKey kvs f.alias).isSome = true) → depMissing infos kvs = []
  | [], _, _ => rfl
  | f :: fs, kvs, h => by
    rw [depMissing]
    have hf := h f (List.mem_cons_self ..)
    have : depViolated f kvs = false := by
      unfold depViolated
      cases hl : lookupKey kvs f.alias with
      | none => rw [hl] at hf; cases hf
      | some x => simp
    rw [this]
    exact depMissing_nil_present fs kvs (fun g hg => h g (List.mem_cons_of_mem _ hg))

theorem infosM_compileF (o : DOpts) (ho : o.fallBackOnDefault = false) : ∀ fs, infosM (compileF o fs) = infosOf fs
  | [] => by rw [compileF]; rfl
  | (f, t) :: fs => by
    rw [compileF, infosM_cons, withFbod_id ho, infosM_compileF o ho fs]; rfl

theorem aliasesM_compileF (o : DOpts) (ho : o.fallBackOnDefault = false) : ∀ fs, aliasesM (compileF o fs) = aliasesOf fs
  | [] => by rw [compileF, aliasesOf]; rfl
  | (f, t) :: fs => by
    rw [compileF, aliasesM_cons, withFbod_id ho, aliasesOf, aliasesM_compileF o ho fs]

theorem infosOf_names (fs : List (FieldInfo × Ty)) : (infosOf fs).map (·.name) = namesT fs := by
  induction fs with
  | nil => rfl
  | cons ft fs ih => obtain ⟨f, t⟩ := ft; unfold infosOf at ih ⊢; rw [List.map_cons, List.map_cons, namesT, ih]

theorem infosOf_aliases (fs : List (FieldInfo × Ty)) : (infosOf fs).map (·.alias) = aliasesOf fs := by
  induction fs with
  | nil => rfl
  | cons ft fs ih => obtain ⟨f, t⟩ := ft; unfold infosOf at ih ⊢; rw [List.map_cons, List.map_cons, aliasesOf, ih]

/-- constructing from the looked-up attribute values rebuilds the attribute list -/
theorem construct_rebuild {ci : ClassInfo} (hk : ci.kind = .dataclass) {fs : List (FieldInfo × Ty)} {fvs : List (String × Val)}
    (hn : (namesT fs).Nodup) (hnames : fvs.map (·.1) = namesT fs) :
    construct ci (infosOf fs) fvs = .obj ci.name fvs := by
  unfold construct; rw [hk]
  simp only
  congr 1
  have h1 : (infosOf fs).filterMap (pickField fvs)
      = ((infosOf fs).map (·.name)).filterMap (fun n => (fvs.find? (fun kv => kv.1 == n)).map (fun kv => (n, kv.2))) := by
    rw [List.filterMap_map]
    apply filterMap_congr'
    intro f hf
    unfold pickField
    simp only [Function.comp]
    have hmem : f.name ∈ fvs.map (·.1) := by rw [hnames, ← infosOf_names]; exact List.mem_map.2 ⟨f, hf, rfl⟩
    cases hfind : fvs.find? (fun kv => kv.1 == f.name) with
    | none =>
      exfalso
      obtain ⟨kv, hkv, hk1⟩ := List.mem_map.1 hmem
      have := List.find?_eq_none.1 hfind kv hkv
      simp [hk1] at this
    | some kv =>
      have := List.find?_some hfind
      simp only [beq_iff_eq] at this
      simp only [Option.map_some]
      rw [← this]
  rw [h1, infosOf_names, ← hnames]
  exact rebuild_by_names fvs (hnames ▸ hn)

theorem aliasesOf_length : ∀ fs : List (FieldInfo × Ty), (aliasesOf fs).length = fs.length
  | [] => by rw [aliasesOf]; rfl
  | (f, t) :: fs => by rw [aliasesOf, List.length_cons, List.length_cons, aliasesOf_length fs]

theorem valsFO_names : ∀ (fs : List (FieldInfo × Ty)) (fvs : List (String × Val)),
    valsFO fs fvs = (namesT fs).filterMap (fun n => (fvs.find? (fun kv => kv.1 == n)).map (fun kv => (n, kv.2)))
  | [], _ => by unfold valsFO; rw [namesT]; rfl
  | (f, t) :: fs, fvs => by
    have := valsFO_names fs fvs
    unfold valsFO at this ⊢
    rw [namesT, List.filterMap_cons, List.filterMap_cons, this]

/-- **C05 with dataclasses, copying methods.** -/
theorem roundtripO_nocopy_off (o : DOpts) (ho : OptsOk o) (hnc : o.noCopy = false) (so : SOpts)
    (hso1 : so.excludeNone = false) (hso2 : so.excludeDefaults = false) :
    (∀ cs t, cs = {} → t.rtO = true → ∀ v, HasTypeO t v = true → RT so (compile o cs t) t v) ∧
    (∀ (fs : List (FieldInfo × Ty)), rtOF fs = true → ∀ n fvs, hasTypeFO fs fvs = true → FieldsRT o so fs n fvs) ∧
    (∀ cs ts, cs = {} → rtOL ts = true → ∀ vs, hasTypeZipO ts vs = true →
        ∃ js, serTuple so ts vs = .ok js ∧ (compileL o cs ts).length = js.length ∧
          All2 (fun (mj : Meth × Py) v => run mj.1 mj.2 = .ok v) ((compileL o cs ts).zip js) vs) := by
  have hq1 : o.quirks.floatAcceptsBool = false := by rw [ho.quirks]; rfl
  have hq2 : o.quirks.tupleDropsErrors = false := by rw [ho.quirks]; rfl
  have hsel : ∀ c m, listSel o c m = .list c m := by intro c m; unfold listSel; simp [hnc]
  apply compile.mutual_induct
  · intro cs _ _ v hv
    cases v <;> simp [HasTypeO] at hv
    exact ⟨.null, by rw [ser]; rfl, by rw [compile, run]; rfl⟩
  · intro cs _ _ v hv
    cases v <;> simp [HasTypeO] at hv
    exact ⟨.bool _, by rw [ser]; rfl, by rw [compile, run]; rfl⟩
  · intro cs h hc; subst hc; exact absurd h (by simp [hasNum_empty])
  · intro cs h _ _ v hv
    cases v <;> simp [HasTypeO] at hv
    exact ⟨.int _, by rw [ser]; rfl, by rw [compile, if_neg h]; exact run_prim_int _⟩
  · intro cs h hc; subst hc; exact absurd h (by simp [hasNum_empty])
  · intro cs h _ _ v hv
    cases v <;> simp [HasTypeO] at hv
    exact ⟨.float _, by rw [ser]; rfl, by rw [compile, if_neg h, hq1]; exact run_prim_float _⟩
  · intro cs h hc; subst hc; exact absurd h (by simp [hasStr_empty])
  · intro cs h _ _ v hv
    cases v <;> simp [HasTypeO] at hv
    exact ⟨.str _, by rw [ser]; rfl, by rw [compile, if_neg h]; exact run_prim_str _⟩
  · intro cs _ hs; simp [Ty.rtO] at hs
  · -- list
    intro cs t ih hc hs v hv; subst hc
    rw [Ty.rtO] at hs
    cases v <;> try (simp [HasTypeO, onListVal] at hv; done)
    case list vs =>
      simp only [HasTypeO, onListVal, List.all_eq_true] at hv
      obtain ⟨js, hjs, hall⟩ := mapMO_ok (f := fun x => ser so t x) (g := fun j => run (compile o {} t) j) vs
        (fun v hvm => ih rfl hs v (hv v hvm))
      refine ⟨.list js, ?_, ?_⟩
      · rw [ser]; simp [serColl, Val.items?, hjs, bindO]
      · rw [compile, hsel]; exact run_list_ok hall
  · intro cs t _ _ hs; simp [Ty.rtO] at hs
  · intro cs t _ _ hs; simp [Ty.rtO] at hs
  · -- vtuple
    intro cs t ih hc hs v hv; subst hc
    rw [Ty.rtO] at hs
    cases v <;> try (simp [HasTypeO, onTupleVal] at hv; done)
    case tuple vs =>
      simp only [HasTypeO, onTupleVal, List.all_eq_true] at hv
      obtain ⟨js, hjs, hall⟩ := mapMO_ok (f := fun x => ser so t x) (g := fun j => run (compile o {} t) j) vs
        (fun v hvm => ih rfl hs v (hv v hvm))
      refine ⟨.list js, ?_, ?_⟩
      · rw [ser]; simp [serColl, Val.items?, hjs, bindO]
      · rw [compile, hsel, run, run_list_ok hall]; rfl
  · -- tuple
    intro cs ts ih hc hs v hv; subst hc
    rw [Ty.rtO] at hs
    cases v <;> try (simp [HasTypeO, onTupleVal] at hv; done)
    case tuple vs =>
      simp only [HasTypeO, onTupleVal] at hv
      obtain ⟨js, hjs, hlen, hall⟩ := ih rfl hs vs hv
      refine ⟨.list js, ?_, ?_⟩
      · rw [ser]; simp [serTupleV, Val.items?, hjs, bindO]
      · rw [compile, hq2, run]
        simp only [onList]; unfold tupleBody
        rw [hlen]
        simp only [Nat.lt_irrefl, if_false, gt_iff_lt, listErrors_empty,
          runTuple_ok _ js vs 0 hall hlen, finish, Bool.false_eq_true]
        rfl
  · intro cs k v' _ _ _ hs; simp [Ty.rtO] at hs
  · intro cs ts _ _ hs; simp [Ty.rtO] at hs
  · intro cs vs _ hs; simp [Ty.rtO] at hs
  · intro cs c ms _ hs; simp [Ty.rtO] at hs
  · intro cs n t ih hc hs v hv
    rw [HasTypeO] at hv; rw [Ty.rtO] at hs
    obtain ⟨j, hj, hr⟩ := ih hc hs v hv
    exact ⟨j, by rw [ser]; exact hj, by rw [compile]; exact hr⟩
  · intro cs c t _ _ hs; simp [Ty.rtO] at hs
  · -- dataclasses
    intro cs ci fs ih hc hs v hv; subst hc
    rw [Ty.rtO] at hs
    simp only [Bool.and_eq_true, beq_iff_eq] at hs
    obtain ⟨⟨⟨hkind, hdn⟩, hda⟩, hsF⟩ := hs
    cases v <;> try (simp [HasTypeO] at hv; done)
    case obj n fvs =>
      simp only [HasTypeO, Bool.and_eq_true, beq_iff_eq] at hv
      obtain ⟨⟨hname, hnames⟩, hF⟩ := hv
      subst hname
      obtain ⟨js, hser, hkeys, hrun⟩ := ih hsF ci.name fvs hF
      have hnd : (namesT fs).Nodup := nodup_of_distinctStrs hdn
      have hand : (aliasesOf fs).Nodup := nodup_of_distinctStrs hda
      have hktd : ci.kind ≠ .typedDict := by rw [hkind]; intro h; cases h
      refine ⟨.dict js, ?_, ?_⟩
      · have htd : (ci.kind == ObjKind.typedDict) = false := by rw [hkind]; rfl
        rw [ser, htd, hser]; unfold serObj
        simp [bindO, htd]
      · -- deserialization of the emitted object
        have hobj : run (.obj ci (ctorOf o ci) {} o.additionalProperties (compileF o fs)) (.dict js)
            = .ok (.obj ci.name fvs) := by
          rw [run]; simp only [onDict]
          have hlook : ∀ p ∈ js, lookupKey js p.1 = some p.2 := lookupKey_of_mem_nodup (hkeys ▸ hand)
          rw [hrun js hlook]
          unfold finishObj
          simp only
          have hlen : js.length = fs.length := by
            have := congrArg List.length hkeys
            rw [List.length_map, aliasesOf_length] at this
            exact this
          have hdep : depMissing (infosM (compileF o fs)) js = [] := by
            apply depMissing_nil_present
            intro f hf
            rw [infosM_compileF o ho.fbod] at hf
            have : f.alias ∈ js.map (·.1) := by rw [hkeys, ← infosOf_aliases]; exact List.mem_map.2 ⟨f, hf, rfl⟩
            obtain ⟨p, hp, hp1⟩ := List.mem_map.1 this
            rw [← hp1, hlook p hp]; rfl
          rw [hdep, hlen]
          simp only [bne_self_eq_false, Bool.false_and, Bool.false_eq_true, if_false, addDepMissing, List.foldl_nil,
            List.isEmpty_nil, Bool.true_and]
          rw [dictErrors_nil (by rfl), infosM_compileF o ho.fbod]
          simp only [List.isEmpty_nil, if_true]
          have hvals : valsFO fs fvs = fvs := by
            rw [valsFO_names, ← hnames]
            exact rebuild_by_names fvs (hnames ▸ hnd)
          rw [hvals, construct_rebuild hkind hnd hnames]
        rw [compile]
        unfold objSel
        simp only
        split
        · rename_i hcond
          simp only [Bool.and_eq_true, Bool.not_eq_true', beq_iff_eq] at hcond
          obtain ⟨⟨⟨_, htd⟩, _⟩, hsimple⟩ := hcond
          have hap : o.additionalProperties = false := by rw [← htd, hkind]; rfl
          rw [simple_vs_obj (c := {}) hktd rfl hsimple (by rw [fieldNames_compileF]; exact hnd) (.dict js)]
          rw [← hap]; exact hobj
        · exact hobj
  · intro cs _ _ vs hv
    cases vs with
    | nil => exact ⟨[], by rw [serTuple], by rw [compileL]; rfl, by rw [compileL]; exact .nil⟩
    | cons x xs => simp [hasTypeZipO] at hv
  · intro cs t ts iht ihts hc hs vs hv; subst hc
    rw [rtOL, Bool.and_eq_true] at hs
    cases vs with
    | nil => simp [hasTypeZipO] at hv
    | cons x xs =>
      rw [hasTypeZipO, Bool.and_eq_true] at hv
      obtain ⟨j, hj, hr⟩ := iht rfl hs.1 x hv.1
      obtain ⟨js, hjs, hlen, hall⟩ := ihts rfl hs.2 xs hv.2
      refine ⟨j :: js, ?_, ?_, ?_⟩
      · rw [serTuple, hj]; simp [bindO, hjs]
      · rw [compileL]; simp [hlen]
      · rw [compileL]; exact .cons hr hall
  · -- no field
    intro _ n fvs _
    exact ⟨[], by rw [serFields], by rw [aliasesOf]; rfl, fun kvs _ => by rw [compileF, runFields_nil]; rfl⟩
  · -- one more field
    intro f t fs iht ihfs hs n fvs hv
    rw [rtOF, Bool.and_eq_true] at hs
    rw [hasTypeFO, Bool.and_eq_true] at hv
    obtain ⟨hv1, hv2⟩ := hv
    cases hfind : fvs.find? (fun kv => kv.1 == f.name) with
    | none => rw [hfind] at hv1; cases hv1
    | some kv =>
      rw [hfind] at hv1
      obtain ⟨j, hj, hr⟩ := iht rfl hs.1 kv.2 hv1
      obtain ⟨js, hser, hkeys, hrun⟩ := ihfs hs.2 n fvs hv2
      refine ⟨(f.alias, j) :: js, ?_, ?_, ?_⟩
      · rw [serFields]
        unfold serFieldStep
        simp only [Val.field?, hfind, Option.map_some, Bool.false_eq_true, if_false,
          omitted_default so hso1 hso2, hj, hser, bindO]
      · rw [List.map_cons, aliasesOf, hkeys]
      · intro kvs hl
        have h1 := hl (f.alias, j) (List.mem_cons_self ..)
        rw [compileF, runFields_cons, withFbod_id ho.fbod, h1,
          hrun kvs (fun p hp => hl p (List.mem_cons_of_mem _ hp))]
        simp only [Option.map_some, hr, stepField]
        unfold valsFO
        rw [List.filterMap_cons, hfind]
        simp [List.length_cons]

mutual
theorem rtO_scope : ∀ (t : Ty), t.rtO = true → t.scope = true
  | .null, _ | .bool, _ | .int, _ | .float, _ | .str, _ => rfl
  | .list t, h | .vtuple t, h | .newtype _ t, h => by rw [Ty.rtO] at h; rw [Ty.scope]; exact rtO_scope t h
  | .tuple ts, h => by rw [Ty.rtO] at h; rw [Ty.scope]; exact rtOL_scope ts h
  | .obj ci fs, h => by
    rw [Ty.rtO] at h
    simp only [Bool.and_eq_true, beq_iff_eq] at h
    rw [Ty.scope, h.1.1.1, h.1.1.2, rtOF_scope fs h.2]; rfl
  | .any, h | .set _, h | .frozenset _, h | .mapping _ _, h | .union _, h | .literal _, h | .enum _ _, h | .ann _ _, h => by
    simp [Ty.rtO] at h
theorem rtOL_scope : ∀ (ts : List Ty), rtOL ts = true → scopeL ts = true
  | [], _ => rfl
  | t :: ts, h => by rw [rtOL, Bool.and_eq_true] at h; rw [scopeL, rtO_scope t h.1, rtOL_scope ts h.2]; rfl
theorem rtOF_scope : ∀ (fs : List (FieldInfo × Ty)), rtOF fs = true → scopeF fs = true
  | [], _ => rfl
  | (f, t) :: fs, h => by rw [rtOF, Bool.and_eq_true] at h; rw [scopeF, rtO_scope t h.1, rtOF_scope fs h.2]; rfl
end

/-- **C05 with dataclasses.** For every typed value of the fragment (primitives, lists, both tuple kinds, NewTypes,
    dataclasses with distinct field names and aliases, nested to any depth), the default serialization options (any
    `additional_properties`), and every deserialization option record with the repairs - `no_copy` on or off,
    `override_dataclass_constructors` on or off, `additional_properties` on or off - serializing and deserializing gives
    the value back, with the same runtime classes. -/
theorem C05_roundtrip_objects (o : DOpts) (ho : OptsOk o) (so : SOpts) (hso1 : so.excludeNone = false)
    (hso2 : so.excludeDefaults = false) (t : Ty) (hs : t.rtO = true) (v : Val) (hv : HasTypeO t v = true) :
    ∃ j, ser so t v = .ok j ∧ run (compile o {} t) j = .ok v := by
  have ho' : OptsOk { o with noCopy := false } := ⟨ho.fbod, ho.quirks⟩
  obtain ⟨j, hj, hr⟩ := (roundtripO_nocopy_off { o with noCopy := false } ho' rfl so hso1 hso2).1 {} t rfl hs v hv
  refine ⟨j, hj, ?_⟩
  cases hn : o.noCopy
  · have : o = { o with noCopy := false } := by cases o; simp_all
    rw [this]; exact hr
  · have : o = { o with noCopy := true } := by cases o; simp_all
    rw [this, (noCopy_independent o).1 {} t (rtO_scope t hs) j]; exact hr

/-! ### the hypotheses are satisfiable -/
def exTyO : Ty :=
  .obj { name := "Order", kind := .dataclass }
    [({ name := "id", alias := "ID", required := true }, .int),
     ({ name := "lines", alias := "lines", required := false, dflt := some .emptyList },
        .list (.obj { name := "Line", kind := .dataclass }
          [({ name := "sku", alias := "sku", required := true }, .str),
           ({ name := "pos", alias := "pos", required := true }, .tuple [.int, .float])]))]

def exValO : Val :=
  .obj "Order" [("id", .int 7), ("lines", .list [.obj "Line" [("sku", .str "a"), ("pos", .tuple [.int 1, .float (.fin 2)])]])]

example : exTyO.rtO = true ∧ HasTypeO exTyO exValO = true := by decide +kernel
example : (match ser {} exTyO exValO with
    | .ok j => (run (compile exOpts {} exTyO) j).isOk
    | _ => false) = true := by decide +kernel

end Api
