import Apimodel.Generated.Wiring
import Apimodel.Cache
/-!
# C09: the generated wiring table against the abstract machine

`Cache.C09` needs every mutation in a history to be `SafeOp`.  The mutation points of the real package
are enumerated here from the generated table; the ones whose path does not reset are computed, and
compared with the (hand-written, reviewed) list of points known not to reset.  A new unreset point
makes `unreset_are_known` fail to check.
-/
namespace Api.Wiring
open Api.Generated

/-- module-level state that is not configuration read by cached computations (reviewed by hand;
    the correspondence run cross-checks it by observing no staleness on histories that mutate them) -/
def notConfiguration : List (String × String) :=
  [("apischema.cache", "_cached"),                      -- the cache list itself
   ("apischema.fields", "_fields_set_classes"),         -- read on every call, never baked into a method
   ("apischema.graphql.interfaces", "_interfaces"),     -- read when a GraphQL schema is built (not cached)
   ("apischema.graphql.relay.global_identification", "_tmp_nodes"),
   ("apischema.graphql.relay.global_identification", "_nodes"),
   ("apischema.validation.dependencies", "cache")]      -- keyed by function object: a pure function of its key

/-- (kind, name) of every mutation path that does not reach `cache.reset()` -/
def unreset : List (String × String) :=
  (dictMutators.filter (fun m => !m.2)).map (fun m => ("CacheAwareDict", m.1))
  ++ (settingsClasses.filter (fun s => !s.2.1)).map (fun s => ("settings", s.1))
  ++ ((registries.filter (fun r => r.2.2 == "" && !notConfiguration.contains (r.1, r.2.1))).map
        (fun r => ("registry", r.1 ++ "." ++ r.2.1)))
  ++ (nestedMutations.map (fun n => ("nested", n.1 ++ "." ++ n.2.1))).eraseDups
  ++ (if resetClearsAll && cacheRegisters then [] else [("cache", "reset")])
  ++ (if setSizeReregisters then [] else [("cache", "set_size")])

/-- the mutation paths that still do not reset: in-place mutation of a value stored in a wrapped registry
    (known finding KF36, row 36 of DESIGN section 6).  Rows 12 and 37 (`__delitem__`, `settings.errors`,
    `settings.base_schema`, `_schemas`, `set_size`) have been repaired: if one of them comes back the generated table
    changes and this theorem no longer checks. -/
def knownUnreset : List (String × String) := []     -- (row 36, the four nested in-place registrations, repaired)

theorem unreset_are_known : unreset.all knownUnreset.contains = true := by decide

/-- **every mutation path of the configuration resets the caches**: the table the translator reads from the source lists
    no path without a reset (if one appears - a new registry, an in-place mutation, a settings class without the
    metaclass - the generated table changes and this no longer checks) -/
theorem no_unreset_path : unreset = [] := by decide

/-- every other mutation path resets: all remaining registries are wrapped, the wrapper's remaining
    mutators reset, the remaining settings classes reset, `reset()` clears every registered cache -/
theorem wired :
    (registries.all fun r => r.2.2 == "CacheAwareDict" || notConfiguration.contains (r.1, r.2.1)
                              || knownUnreset.contains ("registry", r.1 ++ "." ++ r.2.1)) = true
    ∧ (dictMutators.all fun m => m.2 || knownUnreset.contains ("CacheAwareDict", m.1)) = true
    ∧ (settingsClasses.all fun s => s.2.1 || knownUnreset.contains ("settings", s.1)) = true
    ∧ resetClearsAll = true ∧ cacheRegisters = true := by decide

end Api.Wiring
