import Apimodel.AcceptUnionThm
import Apimodel.CoerceThm
/-!
# C03 and C14 under coercion, with unions at any depth

`C14_monotone_partial` proves "what strict mode accepts, coercion accepts" for the fragment where a union is only
`Optional[T]`.  A sequential union needs more: an alternative tried *before* the accepting one must not crash under
coercion.  So this file first proves that the method tree built with the default coercer never crashes
(`no_crashC`: C03 under `coerce=True`), then monotonicity over `Ty.accU` (`C14_monotoneU`).
-/
namespace Api

theorem isCrash_badTypeP (c : JClass) (d : Py) (h : ∀ kvs, d ≠ .dictNS kvs) : (badTypeP c d).isCrash = false := by
  cases d <;> first | rfl | exact absurd rfl (h _)

/-- the default coercer never raises anything but `bad_type` -/
theorem coerce_nc (env : CoerceEnv) (c : JClass) (d : Py) (h : ∀ kvs, d ≠ .dictNS kvs) :
    (coerce env c d).isCrash = false := by
  have hb := isCrash_badTypeP
  cases c <;> cases d <;> first
    | rfl
    | exact absurd rfl (h _)
    | (simp only [coerce, truncFlt]; split <;> first | rfl | exact hb _ _ h)
    | (rename_i f; cases f <;> rfl)

theorem coerce_ok_notNS {env : CoerceEnv} {c : JClass} {d d' : Py} (h : coerce env c d = .ok d')
    (hd : ∀ kvs, d ≠ .dictNS kvs) : ∀ kvs, d' ≠ .dictNS kvs := by
  intro kvs he
  rcases coerce_prim env c d d' h with rfl | ⟨_, hp⟩
  · exact hd kvs he
  · rw [he] at hp; cases hp

theorem jsonX_notNS {d : Py} (h : d.jsonX = true) : ∀ kvs, d ≠ .dictNS kvs := by
  intro kvs he; rw [he] at h; cases h

/-- a method behind `CoercerMethod` does not crash when it does not crash on what the coercer hands it -/
theorem nc_coerced {env : CoerceEnv} {c : JClass} {m : Meth}
    (hm : ∀ d d', d.jsonX = true → coerce env c d = .ok d' → (run m d').isCrash = false) : NC (.coerced env c m) := by
  intro d hd
  rw [run]
  cases hc : coerce env c d with
  | ok d' => exact hm d d' hd hc
  | invalid e => rfl
  | crash x => have := coerce_nc env c d (jsonX_notNS hd); rw [hc] at this; cases this

/-- containers: the coercer hands a list / dict over unchanged -/
theorem coerce_container {env : CoerceEnv} {c : JClass} (hc : c = .list ∨ c = .dict) {d d' : Py}
    (h : coerce env c d = .ok d') : d' = d := by
  rcases hc with rfl | rfl <;> (simp only [coerce] at h; split at h <;> first | (cases h; rfl) | (cases d <;> cases h))

theorem nc_coerced_container {env : CoerceEnv} {c : JClass} {m : Meth} (hc : c = .list ∨ c = .dict)
    (hm : NC m) : NC (.coerced env c m) :=
  nc_coerced (fun d d' hd h => by rw [coerce_container hc h]; exact hm d hd)

theorem nc_notNS_none {d : Py} (h : ∀ kvs, d ≠ .dictNS kvs) : (runNone d).isCrash = false := by
  cases d <;> first | rfl | exact absurd rfl (h _)
theorem nc_notNS_bool {d : Py} (h : ∀ kvs, d ≠ .dictNS kvs) : (runBool d).isCrash = false := by
  cases d <;> first | rfl | exact absurd rfl (h _)
theorem nc_notNS_int (c : Constraints) {d : Py} (h : ∀ kvs, d ≠ .dictNS kvs) : (runInt c d).isCrash = false := by
  cases d <;> first | exact nc_constrained _ _ | rfl | exact absurd rfl (h _)
theorem nc_notNS_str (c : Constraints) {d : Py} (h : ∀ kvs, d ≠ .dictNS kvs) : (runStr c d).isCrash = false := by
  cases d <;> first | exact nc_constrained _ _ | rfl | exact absurd rfl (h _)

/-- what the coercer returns for `float` is a float -/
theorem coerce_float_ok {env : CoerceEnv} {d d' : Py} (h : coerce env .float d = .ok d') : ∃ f, d' = .float f := by
  cases d <;> simp only [coerce, badTypeP, failAs, badType] at h <;> first
    | (cases h; done)
    | (cases h; exact ⟨_, rfl⟩)
    | (split at h <;> first | (cases h; exact ⟨_, rfl⟩) | (cases h; done))

theorem nc_float_on_float (ab : Bool) (c : Constraints) (f : Flt) : (runFloat ab c (.float f)).isCrash = false :=
  nc_constrained _ _

/-- `LiteralMethod` never raises anything but `bad_type` / `one_of` on data that are not dicts with non-string keys -/
theorem runLiteral_nc (vs en) {d : Py} (h : ∀ kvs, d ≠ .dictNS kvs) : (runLiteral vs en d).isCrash = false := by
  unfold runLiteral
  split
  · cases d <;> first | rfl | exact absurd rfl (h _)
  · split
    · split <;> rfl
    · split <;> rfl

theorem tryLitClasses_nc (env : CoerceEnv) (vs en) {d : Py} (h : ∀ kvs, d ≠ .dictNS kvs) :
    ∀ cs, (tryLitClasses env vs en d cs).isCrash = false
  | [] => by rw [tryLitClasses]; exact runLiteral_nc vs en h
  | c :: cs => by
    rw [tryLitClasses]
    cases hc : coerce env c d with
    | ok d' =>
      simp only
      split
      · exact runLiteral_nc vs en (coerce_ok_notNS hc h)
      · exact tryLitClasses_nc env vs en h cs
    | invalid e => exact tryLitClasses_nc env vs en h cs
    | crash x => have := coerce_nc env c d h; rw [hc] at this; cases this

theorem nc_literalC (env : CoerceEnv) (vs en) : NC (.literalC env vs en) := by
  intro d hd
  have h := jsonX_notNS hd
  rw [run]; unfold runLiteralC
  split
  · exact runLiteral_nc vs en h
  · split
    · exact runLiteral_nc vs en h
    · split
      · exact runLiteral_nc vs en h
      · exact tryLitClasses_nc env vs en h _

theorem nc_optionalC {env : CoerceEnv} {m : Meth} (hm : NC m) : NC (.optionalC env m) := by
  intro d hd
  rw [run]
  split
  · rfl
  · unfold optionalTailC
    have := hm d hd
    cases hr : run m d with
    | ok v => rfl
    | crash x => rw [hr] at this; cases this
    | invalid e =>
      simp only
      have hc := coerce_nc env .null d (jsonX_notNS hd)
      cases hcc : coerce env .null d with
      | ok _ => rfl
      | invalid b => rfl
      | crash x => rw [hcc] at hc; cases hc

/-- whichever method `union()` selects when a coercer is set, it does not crash when the alternatives do not -/
theorem nc_unionSelC {env : CoerceEnv} {clss : List (Option JClass)} {hasNone : Bool} {ms : List Meth}
    (hne : ms ≠ []) (hfind : ((clss.zip ms).find? (fun p => p.1 != some .null)).isSome = true)
    (h : ∀ m ∈ ms, NC m) : NC (unionSelC env clss hasNone ms) := by
  unfold unionSelC
  split
  · split
    · next p m hf => exact nc_optionalC (h m (List.of_mem_zip (List.mem_of_find?_eq_some hf)).2)
    · next hf => rw [hf] at hfind; cases hfind
  · exact nc_union hne h

theorem compileCL_length (o : DOpts) (env : CoerceEnv) (cs : Constraints) : ∀ ts, (compileCL o env cs ts).length = ts.length
  | [] => by rw [compileCL]; rfl
  | t :: ts => by rw [compileCL, List.length_cons, List.length_cons, compileCL_length o env cs ts]

/-- `next(...)` finds an alternative that is not `None`, whatever the methods zipped with the classes -/
theorem find_nonNull_zip : ∀ (ts : List Ty) (ms : List Meth), ms.length = ts.length → ts.all sideOk = true →
    ts.all Ty.isNull = false → (((clsL ts).zip ms).find? (fun p => p.1 != some JClass.null)).isSome = true
  | [], _, _, _, h => by simp at h
  | t :: ts, [], hl, _, _ => by simp at hl
  | t :: ts, m :: ms, hl, hs, hn => by
    rw [clsL, List.zip_cons_cons, List.find?_cons]
    rw [List.all_cons, Bool.and_eq_true] at hs
    cases hc : (t.factoryCls != some JClass.null) with
    | true => rfl
    | false =>
      simp only
      have ht : t.isNull = true := by
        have := hs.1; unfold sideOk at this; rw [hc, Bool.false_or] at this; exact this
      rw [List.all_cons, ht, Bool.true_and] at hn
      exact find_nonNull_zip ts ms (by simpa using hl) hs.2 hn

/-- **C03 under coercion.** For every type of `Ty.accU` without `uniqueItems`, every inherited constraint set, every
    option record with the repairs and every conversion environment, the method tree built
    with the default coercer returns a value or a `ValidationError` on every JSON datum. -/
theorem no_crashC (o : DOpts) (ho : OptsOk o) (env : CoerceEnv) :
    (∀ cs t, t.accU = true → t.nouq = true → cs.unique = false → NC (compileC o env cs t)) ∧
    (∀ fs, accUF fs = true → nouqF fs = true → ∀ p ∈ compileCF o env fs, NC p.2) ∧
    (∀ cs ts, accUL ts = true → nouqL ts = true → cs.unique = false → ∀ m ∈ compileCL o env cs ts, NC m) := by
  have hq1 : o.quirks.floatAcceptsBool = false := by rw [ho.quirks]; rfl
  have hq2 : o.quirks.tupleDropsErrors = false := by rw [ho.quirks]; rfl
  apply compileC.mutual_induct
  · intro cs _ _ _; rw [compileC]
    exact nc_coerced (fun d d' hd h => by rw [run]; exact nc_notNS_none (coerce_ok_notNS h (jsonX_notNS hd)))
  · intro cs _ _ _; rw [compileC]
    exact nc_coerced (fun d d' hd h => by rw [run]; exact nc_notNS_bool (coerce_ok_notNS h (jsonX_notNS hd)))
  · intro cs _ _ _; rw [compileC]
    exact nc_coerced (fun d d' hd h => by
      split <;> (rw [run]; exact nc_notNS_int _ (coerce_ok_notNS h (jsonX_notNS hd))))
  · intro cs _ _ _; rw [compileC, hq1]
    exact nc_coerced (fun d d' hd h => by
      obtain ⟨f, rfl⟩ := coerce_float_ok h
      split <;> (rw [run]; exact nc_float_on_float _ _ f))
  · intro cs _ _ _; rw [compileC]
    exact nc_coerced (fun d d' hd h => by
      split <;> (rw [run]; exact nc_notNS_str _ (coerce_ok_notNS h (jsonX_notNS hd))))
  · intro cs _ _ hu d hd; rw [compileC, run]; exact nc_any cs hu d hd
  · intro cs t ih ha hn hu; rw [Ty.accU] at ha; rw [Ty.nouq] at hn
    rw [compileC]; exact nc_coerced_container (Or.inl rfl) (nc_listSel hu (ih ha hn rfl))
  · intro cs t _ ha; rw [Ty.accU] at ha; cases ha
  · intro cs t _ ha; rw [Ty.accU] at ha; cases ha
  · intro cs t ih ha hn hu; rw [Ty.accU] at ha; rw [Ty.nouq] at hn
    rw [compileC]
    refine nc_coerced_container (Or.inl rfl) ?_
    intro d hd; rw [run]
    exact nc_mapVal_tuple (nc_listSel hu (ih ha hn rfl) d hd)
  · -- tuple
    intro cs ts ih ha hn hu; rw [Ty.accU] at ha; rw [Ty.nouq] at hn
    rw [compileC, hq2]
    refine nc_coerced_container (Or.inl rfl) ?_
    intro d hd; rw [run]
    cases d <;> try (first | exact nc_badType hd | cases hd)
    case list xs =>
      rw [Py.jsonX] at hd
      simp only [onList]; unfold tupleBody
      split
      · rfl
      · split
        · rfl
        · exact nc_finish (runTuple_nocrash _ xs 0 (ih ha hn rfl) hd) (listErrors_isSome cs xs hu) (fun _ => rfl)
  · intro cs k v ihk ihv ha hn hu
    rw [Ty.accU, Bool.and_eq_true] at ha; rw [Ty.nouq, Bool.and_eq_true] at hn
    rw [compileC]; exact nc_coerced_container (Or.inr rfl) (nc_mappingSel (ihk ha.1 hn.1 rfl) (ihv ha.2 hn.2 rfl))
  · -- unions of any shape
    intro cs ts ih ha hn hu; rw [Ty.accU] at ha; rw [Ty.nouq] at hn
    simp only [Bool.and_eq_true, Bool.not_eq_eq_eq_not, Bool.not_true] at ha
    rw [compileC]
    have hne : compileCL o env cs ts ≠ [] := by
      cases ts with
      | nil => simp at ha
      | cons t ts => rw [compileCL]; exact List.cons_ne_nil _ _
    exact nc_unionSelC hne (find_nonNull_zip ts _ (compileCL_length o env cs ts) ha.1.2 ha.2) (ih ha.1.1 hn hu)
  · intro cs vs _ _ _; rw [compileC]; exact nc_literalC env _ _
  · intro cs c ms _ _ _; rw [compileC]; exact nc_literalC env _ _
  · intro cs n t ih ha hn hu; rw [Ty.accU] at ha; rw [Ty.nouq] at hn; rw [compileC]; exact ih ha hn hu
  · intro cs c t ih ha hn hu; rw [Ty.accU] at ha; rw [Ty.nouq] at hn
    simp only [Bool.and_eq_true, Bool.not_eq_true'] at hn
    rw [compileC]; exact ih ha hn.2 (merge_unique' hn.1 hu)
  · intro cs ci fs ih ha hn _
    rw [Ty.accU, Bool.and_eq_true] at ha; rw [Ty.nouq] at hn
    rw [compileC]; exact nc_coerced_container (Or.inr rfl) (nc_objSel (ih ha.2 hn))
  · intro cs _ _ _ m hm; rw [compileCL] at hm; cases hm
  · intro cs t ts iht ihts ha hn hu m hm
    rw [accUL, Bool.and_eq_true] at ha; rw [nouqL, Bool.and_eq_true] at hn
    rw [compileCL] at hm
    rcases List.mem_cons.1 hm with rfl | hm'
    · exact iht ha.1 hn.1 hu
    · exact ihts ha.2 hn.2 hu m hm'
  · intro _ _ p hp; rw [compileCF] at hp; cases hp
  · intro f t fs iht ihfs ha hn p hp
    rw [accUF] at ha; simp only [Bool.and_eq_true, Bool.not_eq_true'] at ha
    rw [nouqF, Bool.and_eq_true] at hn
    rw [compileCF] at hp
    rcases List.mem_cons.1 hp with rfl | hp'
    · exact iht ha.1.2 hn.1 rfl
    · exact ihfs ha.2 hn.2 p hp'

/-! ### what conforms is accepted under coercion -/

/-- per (coerced method, type): conforming good data are accepted -/
def AccC (o : DOpts) (cs : Constraints) (m : Meth) (t : Ty) : Prop :=
  ∀ d, d.good = true → conforms o.additionalProperties false cs t d = true → (run m d).isOk = true

theorem run_coerced_inst {env : CoerceEnv} {c : JClass} {m : Meth} {d : Py} (h : d.isInstance c = true) :
    run (.coerced env c m) d = run m d := run_coerced_ok (coerce_instance env c d h)

theorem mem_compileCL {o : DOpts} {env : CoerceEnv} {cs : Constraints} : ∀ {ts : List Ty} {t : Ty}, t ∈ ts →
    compileC o env cs t ∈ compileCL o env cs ts
  | t' :: ts, t, h => by
    rw [compileCL]
    rcases List.mem_cons.1 h with rfl | h'
    · exact List.mem_cons_self ..
    · exact List.mem_cons_of_mem _ (mem_compileCL h')

theorem conformsAny_exists {ap : Bool} {cs : Constraints} {d : Py} : ∀ {ts : List Ty},
    conformsAny ap false cs ts d = true → ∃ t ∈ ts, conforms ap false cs t d = true
  | [], h => by rw [conformsAny] at h; cases h
  | t :: ts, h => by
    rw [conformsAny, Bool.or_eq_true] at h
    rcases h with h | h
    · exact ⟨t, List.mem_cons_self .., h⟩
    · obtain ⟨t', ht', hc⟩ := conformsAny_exists h
      exact ⟨t', List.mem_cons_of_mem _ ht', hc⟩

theorem firstOk_isSome_of_mem : ∀ {ms : List Meth} {m : Meth} {d : Py}, m ∈ ms → (run m d).isOk = true →
    (firstOk ms d).isSome = true := by
  intro ms m d hm hok
  rw [firstOk_isSome]
  exact List.any_eq_true.2 ⟨m, hm, hok⟩

theorem zipOk_of_conformsC {o : DOpts} {env : CoerceEnv} : ∀ (ts : List Ty),
    (∀ t ∈ ts, AccC o {} (compileC o env {} t) t) → ∀ xs : List Py, (∀ x ∈ xs, x.good = true) →
    conformsZip o.additionalProperties false ts xs = true → zipOkM (compileCL o env {} ts) xs = true
  | [], _, xs, _, _ => by rw [compileCL]; cases xs <;> simp [zipOkM]
  | t :: ts, h, xs, hx, hc => by
    rw [compileCL]
    cases xs with
    | nil => simp [zipOkM]
    | cons x xs =>
      rw [conformsZip, Bool.and_eq_true] at hc
      simp only [zipOkM, Bool.and_eq_true]
      exact ⟨h t (List.mem_cons_self ..) x (hx x (List.mem_cons_self ..)) hc.1,
        zipOk_of_conformsC ts (fun t' ht' => h t' (List.mem_cons_of_mem _ ht')) xs
          (fun x' hx' => hx x' (List.mem_cons_of_mem _ hx')) hc.2⟩

/-- the compiled fields of the coerced tree carry the declared records, without fall-back -/
theorem compileCF_infos (o : DOpts) (env : CoerceEnv) (hf : o.fallBackOnDefault = false) : ∀ (fs : List (FieldInfo × Ty)),
    nfF fs = true → aliasesM (compileCF o env fs) = aliasesOf fs ∧ NoFbod (compileCF o env fs) ∧
      infosM (compileCF o env fs) = infosOf fs
  | [], _ => by
    rw [compileCF, aliasesOf]
    exact ⟨rfl, (fun fm h => by cases h), rfl⟩
  | (f, t) :: fs, h => by
    rw [nfF] at h; simp only [Bool.and_eq_true, Bool.not_eq_true'] at h
    obtain ⟨i1, i2, i3⟩ := compileCF_infos o env hf fs h.2
    rw [compileCF, withFbod_id hf]
    refine ⟨by rw [aliasesM_cons, aliasesOf, i1], ?_, by rw [infosM, i3]; rfl⟩
    intro fm hfm
    rcases List.mem_cons.1 hfm with rfl | hm
    · exact h.1
    · exact i2 fm hm

theorem fieldsOk_of_conformsC {o : DOpts} {env : CoerceEnv} (hf : o.fallBackOnDefault = false) : ∀ (fs : List (FieldInfo × Ty)),
    nfF fs = true → (∀ ft ∈ fs, AccC o {} (compileC o env {} ft.2) ft.2) → ∀ kvs, wfK kvs = true → jsonXK kvs = true →
    conformsF o.additionalProperties false fs kvs = true → fieldsOkM (compileCF o env fs) kvs = true
  | [], _, _, kvs, _, _, _ => by rw [compileCF]; simp [fieldsOkM]
  | (f, t) :: fs, hn, h, kvs, hw, hj, hc => by
    rw [nfF] at hn; simp only [Bool.and_eq_true, Bool.not_eq_true'] at hn
    rw [conformsF, Bool.and_eq_true] at hc
    rw [compileCF, withFbod_id hf, fieldsOkM_cons, Bool.and_eq_true]
    refine ⟨?_, fieldsOk_of_conformsC hf fs hn.2 (fun ft hft => h ft (List.mem_cons_of_mem _ hft)) kvs hw hj hc.2⟩
    have h1 := hc.1
    unfold fieldOk at h1; unfold fieldOk0
    cases hl : lookupKey kvs f.alias with
    | none => rw [hl] at h1; exact h1
    | some x =>
      rw [hl] at h1
      simp only [hn.1, Bool.or_false, Bool.and_false] at h1
      have hg : x.good = true := by unfold Py.good; rw [lookupKey_wf hw hl, lookupKey_json hj hl]; rfl
      exact h (f, t) (List.mem_cons_self ..) x hg h1

/-- **C14 (completeness of the coerced tree).** Every good datum that conforms to a type of `Ty.accU` (no
    `uniqueItems`) is accepted by the method tree built with the default coercer: whichever union method is selected,
    whatever is tried before the alternative that matches. -/
theorem conforms_acceptedC (o : DOpts) (ho : OptsOk o) (env : CoerceEnv) :
    (∀ cs t, t.accU = true → t.nouq = true → cs.unique = false → AccC o cs (compileC o env cs t) t) ∧
    (∀ fs, accUF fs = true → nouqF fs = true → ∀ ft ∈ fs, AccC o {} (compileC o env {} ft.2) ft.2) ∧
    (∀ cs ts, accUL ts = true → nouqL ts = true → cs.unique = false → ∀ t ∈ ts, AccC o cs (compileC o env cs t) t) := by
  have hq2 : o.quirks.tupleDropsErrors = false := by rw [ho.quirks]; rfl
  -- leaves (and every type of the older fragment): strict acceptance, then `C14_monotone_partial`
  have leaf : ∀ cs t, t.acc = true → t.cfrag = true → AccC o cs (compileC o env cs t) t := by
    intro cs t ha hc d hg hconf
    have hs : (run (compile o cs t) d).isOk = true := by rw [(accepts_iff_conforms o ho).1 cs t ha d (good_wf hg)]; exact hconf
    exact (C14_monotone_partial o ho env).1 cs t hc d (good_wf hg) hs
  apply compileC.mutual_induct
  · intro cs _ _ _; exact leaf cs .null rfl rfl
  · intro cs _ _ _; exact leaf cs .bool rfl rfl
  · intro cs _ _ _; exact leaf cs .int rfl rfl
  · intro cs _ _ _; exact leaf cs .float rfl rfl
  · intro cs _ _ _; exact leaf cs .str rfl rfl
  · intro cs _ _ _; exact leaf cs .any rfl rfl
  · -- list
    intro cs t ih ha hn hu d hg hc
    rw [Ty.accU] at ha; rw [Ty.nouq] at hn
    rw [conforms] at hc
    rw [compileC, run_coerced_inst (listOk_inst hc), isOk_listSel]
    exact listOk_mono (fun xs hd x hx hp => ih ha hn rfl x (good_list (hd ▸ hg) x hx) hp) hc
  · intro cs t _ ha; rw [Ty.accU] at ha; cases ha
  · intro cs t _ ha; rw [Ty.accU] at ha; cases ha
  · -- variadic tuple
    intro cs t ih ha hn hu d hg hc
    rw [Ty.accU] at ha; rw [Ty.nouq] at hn
    rw [conforms] at hc
    rw [compileC, run_coerced_inst (listOk_inst hc), run, isOk_mapVal_tuple, isOk_listSel]
    exact listOk_mono (fun xs hd x hx hp => ih ha hn rfl x (good_list (hd ▸ hg) x hx) hp) hc
  · -- tuple
    intro cs ts ih ha hn hu d hg hc
    rw [Ty.accU] at ha; rw [Ty.nouq] at hn
    rw [conforms] at hc
    rw [compileC, hq2, run_coerced_inst (tupleOk_inst hc), isOk_tuple, compileCL_length]
    cases d <;> try (cases hc)
    case list xs =>
      simp only [tupleOk, Bool.and_eq_true] at hc ⊢
      exact ⟨hc.1, zipOk_of_conformsC ts (ih ha hn rfl) xs (good_list hg) hc.2⟩
  · -- mapping
    intro cs k v ihk ihv ha hn hu d hg hc
    rw [Ty.accU, Bool.and_eq_true] at ha; rw [Ty.nouq, Bool.and_eq_true] at hn
    rw [conforms] at hc
    rw [compileC, run_coerced_inst (dictOk_inst hc), isOk_mappingSel]
    cases d <;> try (cases hc)
    case dict kvs =>
      obtain ⟨hw, hj, _⟩ := good_dict hg
      simp only [dictOk, Bool.and_eq_true, List.all_eq_true] at hc ⊢
      refine ⟨hc.1, fun kv hkv => ?_⟩
      have hgv : kv.2.good = true := by unfold Py.good; rw [wfK_mem hw kv hkv, jsonXK_mem hj kv hkv]; rfl
      exact ⟨ihk ha.1 hn.1 rfl (.str kv.1) (good_str _) (hc.2 kv hkv).1, ihv ha.2 hn.2 rfl kv.2 hgv (hc.2 kv hkv).2⟩
  · -- unions of any shape
    intro cs ts ih ha hn hu d hg hc
    rw [Ty.accU] at ha; rw [Ty.nouq] at hn
    simp only [Bool.and_eq_true, Bool.not_eq_eq_eq_not, Bool.not_true] at ha
    rw [conforms] at hc
    obtain ⟨t, ht, hct⟩ := conformsAny_exists hc
    have hok : (run (compileC o env cs t) d).isOk = true := ih ha.1.1 hn hu t ht d hg hct
    have hnc : ∀ m ∈ compileCL o env cs ts, (run m d).isCrash = false :=
      fun m hm => (no_crashC o ho env).2.2 cs ts ha.1.1 hn hu m hm d (good_jsonX hg)
    rw [compileC]
    unfold unionSelC
    split
    · -- OptionalMethod with a coercer: the alternative found is the only one that is not `None`
      next hopt =>
      rw [Bool.and_eq_true] at hopt
      have hlen : ts.length = 2 := by have := compileCL_length o env cs ts; have := hopt.2; simp at this; omega
      match ts, hlen with
      | [a, b], _ =>
        rw [compileCL, compileCL, compileCL, clsL, clsL, clsL]
        have hside : ∀ t' ∈ [a, b], t'.factoryCls = some JClass.null → t' = Ty.null := by
          intro t' ht' hcl
          have := List.all_eq_true.1 ha.1.2 t' ht'
          unfold sideOk at this; rw [hcl] at this
          cases t' <;> simp [Ty.isNull] at this ⊢
        by_cases hca : a.factoryCls = some JClass.null
        · have hae : a = .null := hside a (by simp) hca
          subst hae
          by_cases hcb : b.factoryCls = some JClass.null
          · have hbe : b = .null := hside b (by simp) hcb
            subst hbe; simp [Ty.isNull] at ha
          · have hfind : List.find? (fun p => p.1 != some JClass.null)
                ([Ty.null.factoryCls, b.factoryCls].zip [compileC o env cs Ty.null, compileC o env cs b])
                = some (b.factoryCls, compileC o env cs b) := by
              have hbne : (b.factoryCls != some JClass.null) = true := by simpa using hcb
              simp [List.zip, Ty.factoryCls, hbne]
            simp only [hfind]
            apply isOk_optionalC_of
            simp only [List.mem_cons, List.mem_nil_iff, or_false] at ht
            rcases ht with rfl | rfl
            · rw [conforms] at hct; exact Or.inl hct
            · exact Or.inr hok
        · have hfind : List.find? (fun p => p.1 != some JClass.null)
              ([a.factoryCls, b.factoryCls].zip [compileC o env cs a, compileC o env cs b])
              = some (a.factoryCls, compileC o env cs a) := by
            have hane : (a.factoryCls != some JClass.null) = true := by simpa using hca
            simp [List.zip, hane]
          simp only [hfind]
          apply isOk_optionalC_of
          have hbn : b = .null := by
            have h1 := hopt.1
            simp only [anyNull, Bool.or_false, Bool.or_eq_true] at h1
            rcases h1 with h | h
            · exfalso; cases a <;> simp [Ty.isNull] at h; exact hca rfl
            · cases b <;> simp [Ty.isNull] at h; rfl
          subst hbn
          simp only [List.mem_cons, List.mem_nil_iff, or_false] at ht
          rcases ht with rfl | rfl
          · exact Or.inr hok
          · rw [conforms] at hct; exact Or.inl hct
    · -- sequential: nothing before the matching alternative crashes
      rw [isOk_val?, run, C13_sequential _ d Option.none hnc]
      exact firstOk_isSome_of_mem (mem_compileCL ht) hok
  · intro cs vs _ _ _; exact leaf cs (.literal vs) rfl rfl
  · intro cs c ms _ _ _; exact leaf cs (.enum c ms) rfl rfl
  · intro cs n t ih ha hn hu d hg hc; rw [Ty.accU] at ha; rw [Ty.nouq] at hn; rw [conforms] at hc; rw [compileC]; exact ih ha hn hu d hg hc
  · intro cs c t ih ha hn hu d hg hc
    rw [Ty.accU] at ha; rw [Ty.nouq] at hn
    simp only [Bool.and_eq_true, Bool.not_eq_true'] at hn
    rw [conforms] at hc; rw [compileC]; exact ih ha hn.2 (merge_unique' hn.1 hu) d hg hc
  · -- objects
    intro cs ci fs ih ha hn _ d hg hc
    rw [Ty.accU, Bool.and_eq_true] at ha; rw [Ty.nouq] at hn
    rw [conforms] at hc
    obtain ⟨i1, i2, i3⟩ := compileCF_infos o env ho.fbod fs (nfF_of_accUF ha.2)
    have hnd : (aliasesM (compileCF o env fs)).Nodup := i1 ▸ nodup_of_distinctStrs ha.1
    rw [compileC, run_coerced_inst (dictOk_inst hc), isOk_objSel_M i2 hnd d (good_wf hg), i1, i3]
    cases d <;> try (cases hc)
    case dict kvs =>
      obtain ⟨hw, hj, _⟩ := good_dict hg
      simp only [dictOk, Bool.and_eq_true] at hc ⊢
      exact ⟨hc.1, ⟨fieldsOk_of_conformsC ho.fbod fs (nfF_of_accUF ha.2) (ih ha.2 hn) kvs hw hj hc.2.1.1, hc.2.1.2⟩, hc.2.2⟩
  · intro cs _ _ _ t ht; cases ht
  · intro cs t ts iht ihts ha hn hu t' ht'
    rw [accUL, Bool.and_eq_true] at ha; rw [nouqL, Bool.and_eq_true] at hn
    rcases List.mem_cons.1 ht' with rfl | hm
    · exact iht ha.1 hn.1 hu
    · exact ihts ha.2 hn.2 hu t' hm
  · intro _ _ ft hft; cases hft
  · intro f t fs iht ihfs ha hn ft hft
    rw [accUF] at ha; simp only [Bool.and_eq_true, Bool.not_eq_true'] at ha
    rw [nouqF, Bool.and_eq_true] at hn
    rcases List.mem_cons.1 hft with rfl | hm
    · exact iht ha.1.2 hn.1 rfl
    · exact ihfs ha.2 hn.2 ft hm

/-- **C14 (monotonicity), version 2.** With the default coercer every good datum accepted in strict mode is still
    accepted, for every type of `Ty.accU` without `uniqueItems`: unions of any shape at any depth included. -/
theorem C14_monotoneU (o : DOpts) (ho : OptsOk o) (env : CoerceEnv) (cs : Constraints) (t : Ty)
    (ha : t.accU = true) (hn : t.nouq = true) (hu : cs.unique = false) (d : Py) (hg : d.good = true)
    (hs : (run (compile o cs t) d).isOk = true) : (run (compileC o env cs t) d).isOk = true := by
  rw [(acceptsU o ho).1 cs t ha hn hu d hg] at hs
  exact (conforms_acceptedC o ho env).1 cs t ha hn hu d hg hs

/-! ### the hypotheses are satisfiable -/
/-- `Dict[str, Union[List[Union[float, None, str]], int]]`: a sequential union (coercion never builds the by-type table)
    around another one -/
def exTyC : Ty := .mapping .str (.union [.list (.union [.float, .null, .str]), .int])

example : exTyC.accU = true ∧ exTyC.nouq = true ∧ exTyC.cfrag = false := by decide +kernel
example : (Py.dict [("a", .list [.int 1, .null, .str "x"]), ("b", .int 2)]).good = true := by decide +kernel
example : (run (compile exOpts {} exTyC) (.dict [("a", .list [.int 1, .null, .str "x"]), ("b", .int 2)])).isOk = true := by
  decide +kernel
example : (run (compileC exOpts {} {} exTyC) (.dict [("a", .list [.int 1, .null, .str "x"]), ("b", .int 2)])).isOk = true := by
  decide +kernel
/-- accepted only under coercion: `"3"` where the union offers `int` -/
example : (run (compile exOpts {} exTyC) (.dict [("b", .str "3")])).isOk = false ∧
    (run (compileC exOpts { intOf := [("3", 3)] } {} exTyC) (.dict [("b", .str "3")])).isOk = true := by decide +kernel

end Api
