import Apimodel.RecSeq
/-! The bound of `compileF` only matters for the overflow: an outcome reached within a bound is the outcome under every larger bound. -/
namespace Api.Rec

theorem visitKids_mono {f f' : Bool → Node → Option (Nat × Bool)} (h : ∀ b x r, f b x = some r → f' b x = some r) (restore : Bool) :
    ∀ (xs : List Node) (first : Bool) (r : Nat × Bool), visitKids f restore first xs = some r → visitKids f' restore first xs = some r
  | [], first, r, hr => by simpa [visitKids] using hr
  | x :: xs, first, r, hr => by
    unfold visitKids at hr ⊢
    cases hfx : f first x with
    | none => rw [hfx] at hr; cases hr
    | some p =>
      rw [hfx] at hr
      rw [h first x p hfx]
      obtain ⟨d, first'⟩ := p
      simp only [] at hr ⊢
      cases hk : visitKids f restore (if restore then first else first') xs with
      | none => rw [hk] at hr; cases hr
      | some q =>
        rw [hk] at hr
        rw [visitKids_mono h restore xs _ q hk]
        exact hr

theorem compileF_mono (g : Graph) (objs : List Node) (memo : Cache) :
    ∀ (fuel : Nat) (vc : List Node) (first : Bool) (n : Node) (r : Nat × Bool),
      compileF g objs memo fuel vc first n = some r → compileF g objs memo (fuel + 1) vc first n = some r
  | 0, _, _, _, _, h => by simp [compileF] at h
  | fuel + 1, vc, first, n, r, h => by
    have ih := compileF_mono g objs memo fuel
    rw [compileF] at h
    rw [compileF]
    split
    · rename_i hm
      rw [if_pos hm] at h
      split
      · rename_i hv; rw [if_pos hv] at h; exact h
      · rename_i hv
        rw [if_neg hv] at h
        cases hk : visitKids (compileF g objs memo fuel (n :: vc)) (objs.contains n) first (children g n) with
        | none => rw [hk] at h; cases h
        | some q =>
          rw [hk] at h
          rw [visitKids_mono (fun b x r' hr' => ih (n :: vc) b x r' hr') _ _ _ q hk]
          exact h
    · rename_i hm
      rw [if_neg hm] at h
      split
      · rename_i hf
        rw [if_pos hf] at h
        cases hk : visitKids (compileF g objs memo fuel vc) (objs.contains n) false (children g n) with
        | none => rw [hk] at h; cases h
        | some q =>
          rw [hk] at h
          rw [visitKids_mono (fun b x r' hr' => ih vc b x r' hr') _ _ _ q hk]
          exact h
      · rename_i hf
        rw [if_neg hf] at h
        cases hk : visitKids (compileF g objs memo fuel []) (objs.contains n) false (children g n) with
        | none => rw [hk] at h; cases h
        | some q =>
          rw [hk] at h
          rw [visitKids_mono (fun b x r' hr' => ih [] b x r' hr') _ _ _ q hk]
          exact h

/-- an outcome reached within a bound is the outcome under every larger bound -/
theorem compileF_bound_irrelevant (g : Graph) (objs : List Node) (memo : Cache) (fuel k : Nat) (vc : List Node) (first : Bool) (n : Node)
    (r : Nat × Bool) (h : compileF g objs memo fuel vc first n = some r) : compileF g objs memo (fuel + k) vc first n = some r := by
  induction k with
  | zero => exact h
  | succ k ih => exact compileF_mono g objs memo (fuel + k) vc first n r ih

end Api.Rec
