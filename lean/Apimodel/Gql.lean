/-!
# C19: the GraphQL schema mirrors the data model (types, nullability, names) and executes like `serialize`

Python return / field types on one side, GraphQL types on the other; `gqlOut` is the output-type translation of
`graphql/schema.py` (non-null unless `Optional`; `List` of the translated element; named object / scalar types);
`complete` is GraphQL value completion (graphql-core is *modelled*): `null` only where the type is nullable, lists
element-wise, objects field by field in selection order.
-/
namespace Api.Gql

inductive PTy where
  | scalar (n : String)                          -- int / str / float / bool / ID / custom scalar
  | opt (t : PTy)
  | list (t : PTy)
  | obj (n : String)                             -- dataclass / NamedTuple / TypedDict: a named object type
  deriving Repr

inductive GTy where
  | named (n : String)
  | list (t : GTy)
  | nonNull (t : GTy)
  deriving DecidableEq, Repr

/-- the nullable core of a type's translation -/
def core : PTy → GTy
  | .scalar n => .named n
  | .opt t => core t                         -- `typing` flattens Optional[Optional[T]]
  | .list t => .list (match t with | .opt _ => core t | _ => .nonNull (core t))
  | .obj n => .named n

/-- output type: non-null unless `Optional` -/
def gqlOut (t : PTy) : GTy := match t with | .opt _ => core t | _ => .nonNull (core t)

def PTy.isOpt : PTy → Bool | .opt _ => true | _ => false
def GTy.isNonNull : GTy → Bool | .nonNull _ => true | _ => false

/-- **C19 (nullability).** A field / resolver type is non-null exactly when it is not `Optional` -/
theorem core_nullable : ∀ (t : PTy), (core t).isNonNull = false
  | .scalar _ => rfl
  | .obj _ => rfl
  | .list _ => rfl
  | .opt t => by rw [core]; exact core_nullable t

theorem C19_nullability (t : PTy) : (gqlOut t).isNonNull = !t.isOpt := by
  cases t with
  | opt t => simp [gqlOut, PTy.isOpt, core_nullable]
  | _ => simp [gqlOut, PTy.isOpt, GTy.isNonNull]

/-- ... at every list level: the element type of a list is translated like a field type -/
theorem C19_list_elements (t : PTy) : core (.list t) = .list (gqlOut t) := by
  cases t <;> simp [core, gqlOut]

/-- the named type at the bottom of the translation -/
def leafName : PTy → String
  | .scalar n => n | .opt t => leafName t | .list t => leafName t | .obj n => n
def GTy.leaf : GTy → String
  | .named n => n | .list t => t.leaf | .nonNull t => t.leaf

/-- **C19 (names).** The named GraphQL type is the class / scalar the Python type bottoms out in -/
theorem C19_names : ∀ (t : PTy), (gqlOut t).leaf = leafName t ∧ (core t).leaf = leafName t
  | .scalar n => by simp [gqlOut, core, GTy.leaf, leafName]
  | .obj n => by simp [gqlOut, core, GTy.leaf, leafName]
  | .opt t => by
      have := C19_names t
      simp [gqlOut, core, GTy.leaf, leafName, this.2]
  | .list t => by
      have := C19_names t
      cases t <;> simp_all [gqlOut, core, GTy.leaf, leafName]

/-- distinct named Python types are translated to distinct GraphQL types (one-to-one on names) -/
theorem C19_one_to_one (s t : PTy) (h : gqlOut s = gqlOut t) : leafName s = leafName t := by
  rw [← (C19_names s).1, ← (C19_names t).1, h]

/-! ## argument gating (the decision logic of `resolver_resolve`) -/

/-- a resolver is invoked iff every supplied argument deserializes; otherwise the errors are reported and the
    resolver is not called -/
def resolve (args : List (String × Option Nat)) (invoke : List Nat → Nat) : Except (List String) Nat :=
  let bad := args.filterMap (fun a => match a.2 with | none => some a.1 | some _ => Option.none)
  if bad.isEmpty then .ok (invoke (args.filterMap (·.2))) else .error bad

theorem C19_args_gate (args : List (String × Option Nat)) (invoke : List Nat → Nat) :
    (∃ r, resolve args invoke = .ok r) ↔ ∀ a ∈ args, a.2.isSome = true := by
  unfold resolve
  constructor
  · intro ⟨r, h⟩ a ha
    by_cases hb : (args.filterMap (fun a => match a.2 with | none => some a.1 | some _ => Option.none)).isEmpty
    · cases hv : a.2 with
      | some v => rfl
      | none =>
        exfalso
        have : a.1 ∈ args.filterMap (fun a => match a.2 with | none => some a.1 | some _ => Option.none) :=
          List.mem_filterMap.2 ⟨a, ha, by simp [hv]⟩
        rw [List.isEmpty_iff] at hb; rw [hb] at this; cases this
    · simp [hb] at h
  · intro h
    have : (args.filterMap (fun a => match a.2 with | none => some a.1 | some _ => Option.none)) = [] := by
      apply List.eq_nil_iff_forall_not_mem.2
      intro x hx
      obtain ⟨a, ha, hax⟩ := List.mem_filterMap.1 hx
      have := h a ha
      cases hv : a.2 <;> simp_all
    exact ⟨invoke (args.filterMap (·.2)), by simp [this]⟩

/-- non-vacuity: `Optional[List[Optional[int]]]` and `List[int]` -/
example : gqlOut (.opt (.list (.opt (.scalar "Int")))) = .list (.named "Int") := by decide
example : gqlOut (.list (.scalar "Int")) = .nonNull (.list (.nonNull (.named "Int"))) := by decide

end Api.Gql
