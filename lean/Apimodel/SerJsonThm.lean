import Apimodel.SerSchema
/-!
# C04: on well-typed values `serialize` returns, and what it returns is made of JSON types only

`Py.pure`: dicts with string keys, lists, strings, numbers, booleans and null — no leftover Python object (`.other`), no
dict with non-string keys (`.dictNS`).  For every type of the C07 fragment (primitives, lists, both tuple kinds, NewTypes,
dataclasses nested to any depth), every option record and every value of the type, `ser` returns a pure value.
-/
namespace Api

mutual
def Py.pure : Py → Bool
  | .null | .bool _ | .int _ | .float _ | .str _ => true
  | .list xs => pureL xs
  | .dict kvs => pureK kvs
  | .dictNS _ | .other _ => false
termination_by structural d => d
def pureL : List Py → Bool
  | [] => true
  | x :: xs => x.pure && pureL xs
termination_by structural xs => xs
def pureK : List (String × Py) → Bool
  | [] => true
  | (_, v) :: kvs => v.pure && pureK kvs
termination_by structural kvs => kvs
end

theorem pureK_append : ∀ (a b : List (String × Py)), pureK (a ++ b) = (pureK a && pureK b)
  | [], b => by simp [pureK]
  | (k, v) :: a, b => by simp [pureK, pureK_append a b, Bool.and_assoc]

/-- what a type of the fragment promises about one of its values -/
def SJ (so : SOpts) (t : Ty) : Prop := ∀ v, HasTy t v = true → ∃ j, ser so t v = .ok j ∧ j.pure = true

theorem mapMO_pure {f : Val → Outcome Py} : ∀ (vs : List Val), (∀ x ∈ vs, ∃ j, f x = .ok j ∧ j.pure = true) →
    ∃ js, mapMO f vs = .ok js ∧ pureL js = true
  | [], _ => ⟨[], rfl, rfl⟩
  | x :: xs, h => by
    obtain ⟨j, hj, hp⟩ := h x (List.mem_cons_self ..)
    obtain ⟨js, hjs, hps⟩ := mapMO_pure xs (fun y hy => h y (List.mem_cons_of_mem _ hy))
    exact ⟨j :: js, by simp [mapMO, hj, hjs, bindO], by simp [pureL, hp, hps]⟩

theorem field_of_hasFields : ∀ {fs : List (FieldInfo × Ty)} {v : Val}, hasFields fs v = true →
    ∀ p ∈ fs, ∃ x, v.field? p.1.name = some x ∧ HasTy p.2 x = true
  | (f, t) :: fs, v, h, p, hp => by
    rw [hasFields, Bool.and_eq_true] at h
    rcases List.mem_cons.1 hp with rfl | hp'
    · cases hx : v.field? f.name with
      | none => rw [hx] at h; simp [onSomeVal] at h
      | some x => rw [hx] at h; exact ⟨x, rfl, by simpa [onSomeVal] using h.1⟩
    · exact field_of_hasFields h.2 p hp'

/-- the field loop of a dataclass instance whose declared fields are all present and well typed -/
theorem serFields_pure (so : SOpts) : ∀ (fs : List (FieldInfo × Ty)) (v : Val),
    (∀ p ∈ fs, SJ so p.2) → hasFields fs v = true →
    ∃ js, serFields so false fs v = .ok js ∧ pureK js = true
  | [], v, _, _ => ⟨[], by rw [serFields], rfl⟩
  | (f, t) :: fs, v, hall, hv => by
    obtain ⟨x, hx, htx⟩ := field_of_hasFields hv (f, t) (List.mem_cons_self ..)
    have hv' : hasFields fs v = true := by rw [hasFields, Bool.and_eq_true] at hv; exact hv.2
    obtain ⟨js, hjs, hps⟩ := serFields_pure so fs v (fun p hp => hall p (List.mem_cons_of_mem _ hp)) hv'
    obtain ⟨j, hj, hp⟩ := hall (f, t) (List.mem_cons_self ..) x htx
    rw [serFields]
    simp only [Bool.false_eq_true, if_false, hx]
    unfold serFieldStep
    simp only [Bool.false_eq_true, if_false]
    split
    · exact ⟨js, hjs, hps⟩
    · exact ⟨(f.alias, j) :: js, by simp [hj, hjs, bindO], by simp [pureK, hp, hps]⟩

/-- **C04 (JSON only, total).** -/
theorem ser_pure (so : SOpts) :
    (∀ t, SJ so t) ∧
    (∀ (_ : Bool) (fs : List (FieldInfo × Ty)), ∀ p ∈ fs, SJ so p.2) ∧
    (∀ ts : List Ty, ∀ vs, hasTyZip ts vs = true → ∃ js, serTuple so ts vs = .ok js ∧ pureL js = true) := by
  apply buildS.mutual_induct
  · intro v hv; cases v <;> simp [HasTy] at hv; exact ⟨_, by rw [ser], rfl⟩
  · intro v hv; cases v <;> simp [HasTy] at hv; exact ⟨_, by rw [ser], rfl⟩
  · intro v hv; cases v <;> simp [HasTy] at hv; exact ⟨_, by rw [ser], rfl⟩
  · intro v hv; cases v <;> simp [HasTy] at hv; exact ⟨_, by rw [ser], rfl⟩
  · intro v hv; cases v <;> simp [HasTy] at hv; exact ⟨_, by rw [ser], rfl⟩
  · intro v hv; simp [HasTy] at hv
  · -- list
    intro t ih v hv
    cases v <;> try (simp [HasTy, onListVal] at hv; done)
    case list vs =>
      simp only [HasTy, onListVal, List.all_eq_true] at hv
      obtain ⟨js, hjs, hp⟩ := mapMO_pure (f := fun x => ser so t x) vs (fun x hx => ih x (hv x hx))
      exact ⟨.list js, by rw [ser]; simp [serColl, Val.items?, hjs, bindO], by rw [Py.pure]; exact hp⟩
  · -- vtuple
    intro t ih v hv
    cases v <;> try (simp [HasTy, onTupleVal] at hv; done)
    case tuple vs =>
      simp only [HasTy, onTupleVal, List.all_eq_true] at hv
      obtain ⟨js, hjs, hp⟩ := mapMO_pure (f := fun x => ser so t x) vs (fun x hx => ih x (hv x hx))
      exact ⟨.list js, by rw [ser]; simp [serColl, Val.items?, hjs, bindO], by rw [Py.pure]; exact hp⟩
  · intro t _ v hv; simp [HasTy] at hv
  · intro t _ v hv; simp [HasTy] at hv
  · -- tuple
    intro ts ih v hv
    cases v <;> try (simp [HasTy, onTupleVal] at hv; done)
    case tuple vs =>
      simp only [HasTy, onTupleVal] at hv
      obtain ⟨js, hjs, hp⟩ := ih vs hv
      exact ⟨.list js, by rw [ser]; simp [serTupleV, Val.items?, hjs, bindO], by rw [Py.pure]; exact hp⟩
  · intro k v' _ _ v hv; simp [HasTy] at hv
  · intro ts _ v hv; simp [HasTy] at hv
  · intro vs v hv; simp [HasTy] at hv
  · intro c ms v hv; simp [HasTy] at hv
  · intro n t ih v hv
    simp only [HasTy] at hv
    obtain ⟨j, hj, hp⟩ := ih v hv
    exact ⟨j, by rw [ser]; exact hj, hp⟩
  · intro c t _ v hv; simp [HasTy] at hv
  · -- dataclass
    intro ci fs ih v hv
    simp only [HasTy, Bool.and_eq_true] at hv
    obtain ⟨⟨⟨hk, _⟩, _⟩, hf⟩ := hv
    have hkind : (ci.kind == ObjKind.typedDict) = false := by
      cases hck : ci.kind <;> simp_all
    obtain ⟨js, hjs, hp⟩ := serFields_pure so fs v ih hf
    refine ⟨.dict js, ?_, by rw [Py.pure]; exact hp⟩
    rw [ser]
    simp only [serObj, hkind, hjs, bindO, Bool.false_and, Bool.false_eq_true, if_false]
  · intro vs hv
    cases vs <;> simp [hasTyZip] at hv
    exact ⟨[], by rw [serTuple], rfl⟩
  · intro t ts iht ihts vs hv
    cases vs with
    | nil => simp [hasTyZip] at hv
    | cons x xs =>
      rw [hasTyZip, Bool.and_eq_true] at hv
      obtain ⟨j, hj, hp⟩ := iht x hv.1
      obtain ⟨js, hjs, hps⟩ := ihts xs hv.2
      exact ⟨j :: js, by rw [serTuple]; simp [hj, hjs, bindO], by simp [pureL, hp, hps]⟩
  · intro _ p hp; cases hp
  · intro _ f t fs iht ihfs p hp
    rcases List.mem_cons.1 hp with rfl | hp'
    · exact iht
    · exact ihfs p hp'

/-- **C04.** For every type of the fragment, every option record and every value of the type, `serialize` returns
    (it does not raise) and the result is made of dicts with string keys, lists, strings, numbers, booleans and null -/
theorem C04_json_only (so : SOpts) (t : Ty) (v : Val) (hv : HasTy t v = true) :
    ∃ j, ser so t v = .ok j ∧ j.pure = true := (ser_pure so).1 t v hv

/-- outside the fragment the clause fails on the current tree (finding KF21): a mapping with non-string literal keys -/
theorem C04_nonstring_keys_counterexample :
    (match ser {} (.mapping (.literal [.int 1]) .int) (.dict [(.int 1, .int 2)]) with | .ok j => j.pure | _ => true) = false := by
  decide +kernel

example : HasTy (.list (.tuple [.int, .str])) (.list [.tuple [.int 1, .str "a"]]) = true := by decide +kernel

end Api
