import Apimodel.Versions
import Apimodel.Generated.VersionsSrc
/-! Source tie of the dialect rewrites (C18): `to_json_schema_2019_09` and `to_json_schema_7` are read from the working tree as straight-line
dict programs (`Generated/VersionsSrc.lean`); on the keys of a schema node they do what the typed model `to07` does, and the draft-07 program
leaves no 2020-12-only keyword and no `$ref` with siblings. `isolate_ref` and `to_open_api_3_0` (not modelled) are pinned to their text. -/
namespace Api

def run2019 : Keys → Option Keys := runDOps (fun _ => Option.none) Generated.ver_to2019

def callee7 : String → Option (Keys → Option Keys)
  | "to_json_schema_2019_09" => some run2019
  | _ => Option.none

def run7 : Keys → Option Keys := runDOps callee7 Generated.ver_to7

/-- the array keywords of a 2020-12 node -/
def arrKeys (items : Option (Bool ⊕ Sch)) (pre : Option (List Sch)) : Keys :=
  (if pre.isSome then ["prefixItems"] else []) ++ (if items.isSome then ["items"] else [])

/-- the array keywords of a converted node -/
def arrKeys07 : S07 → Keys
  | .mk _ _ _ _ one arr addi kept _ _ _ _ _ _ =>
      (if kept.isSome then ["prefixItems"] else []) ++ (if one.isSome || arr.isSome then ["items"] else []) ++
      (if addi.isSome then ["additionalItems"] else [])

/-- C18 (source tie): on the array keywords of any schema node, the program read from `to_json_schema_2019_09` produces the keys of the typed
model's `to07` (since the repair of row 18: `prefixItems` is moved, not copied) -/
theorem to2019_keys_match (ty : List JT) (const : Option Lit) (enum : List Lit) (cons : Constraints) (items : Option (Bool ⊕ Sch))
    (pre : Option (List Sch)) (props : List (String × Sch)) (req : List String) (addl : Option (Bool ⊕ Sch)) (pats : List (Pat × Sch))
    (anyOf : List Sch) (dflt : Option Py) :
    ∃ ks, run2019 (arrKeys items pre) = some ks ∧
      (let m := arrKeys07 (to07 { keepsPrefixItems := false } (.mk ty const enum cons items pre props req addl pats anyOf dflt))
       ks.contains "prefixItems" = m.contains "prefixItems" ∧ ks.contains "items" = m.contains "items" ∧
       ks.contains "additionalItems" = m.contains "additionalItems") := by
  cases pre with
  | none =>
      cases items with
      | none => exact ⟨_, rfl, by simp [to07, to07I, to07Pre, selItemsOne, selAdditional, selKept, arrKeys07, arrKeys, Keys.ins]⟩
      | some i => cases i <;> exact ⟨_, rfl, by simp [to07, to07I, to07Pre, selItemsOne, selAdditional, selKept, arrKeys07, arrKeys, Keys.ins]⟩
  | some l =>
      cases items with
      | none => exact ⟨_, rfl, by simp [to07, to07I, to07Pre, selItemsOne, selAdditional, selKept, arrKeys07, arrKeys, Keys.ins]⟩
      | some i => cases i <;> exact ⟨_, rfl, by simp [to07, to07I, to07Pre, selItemsOne, selAdditional, selKept, arrKeys07, arrKeys, Keys.ins]⟩

/-- all sub-lists (in order) of a list -/
def subsets : List String → List (List String)
  | [] => [[]]
  | x :: xs => (subsets xs).map (x :: ·) ++ subsets xs

/-- the keywords the two rewrites read or write, and one keyword they do not -/
def rewriteKeys : List String :=
  ["prefixItems", "items", "$defs", "definitions", "dependentRequired", "dependencies", "$ref", "allOf", "type"]

/-- C18 (source tie, key level): on every subset of these keywords the draft-07 program runs to the end (it pops no absent key, contains no
statement the interpreter does not know), leaves none of the 2020-12 spellings, keeps `$ref` only when it stands alone, and moves rather than drops -/
theorem to7_vocabulary :
    ((subsets rewriteKeys).all (fun s => match run7 s with
      | some ks => !ks.contains "prefixItems" && !ks.contains "$defs" && !ks.contains "dependentRequired" &&
                   (!ks.contains "$ref" || ks.length == 1) &&
                   (!s.contains "$defs" || ks.contains "definitions") &&
                   (!s.contains "dependentRequired" || ks.contains "dependencies") &&
                   (!s.contains "prefixItems" || ks.contains "items") &&
                   (!(s.contains "prefixItems" && s.contains "items") || ks.contains "additionalItems") &&
                   (!s.contains "type" || ks.contains "type")
      | Option.none => false)) = true := by
  decide +kernel

/-- the parts that are not modelled are the ones the checks were written against -/
theorem versions_pinned :
    Generated.ver_isolateRefSrc = "if '$ref' in schema and len(schema) > 1:\n    schema.setdefault('allOf', []).append({'$ref': schema.pop('$ref')})" := by
  decide +kernel

end Api
