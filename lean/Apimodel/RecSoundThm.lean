import Apimodel.RecSeq
/-! # Soundness of the recursion analysis: whatever is written `True` lies on a cycle

For every type graph, every state reachable by any number of steps of any number of checkers sharing one memo — locked or not, whatever the
schedule — an entry `True` of the memo is a node that reaches itself: `RecMethod` (lazy compilation) is only ever introduced for a type that is
recursive.  The proof is an invariant of `step` (`LSound`, `CSound`): the guard of a checker is a path of the graph, the keys it has recorded
and the writes it has pending lie on cycles.  The converse (`False` ⇒ on no cycle — the direction whose failure is row 96) is *not* proved; it
is decided on generated graphs by the correspondence and the reference closure (`rec_graph.py`).

Plan for the converse (one checker, started on a memo that is exact and closed under children), not yet carried out.  With `cachedE x` := `x` in the
memo or among the pending writes, `G` the guard, `Pend y` := `y` recorded under a head that is still on `G`:
(1) no node of `G` is `cachedE`, `G` has no duplicate;  (2) *closure*: every child of a `cachedE` node is `cachedE`;
(3) *frames*: a visited child of a frame's node is `cachedE`, on `G`, or `Pend`; if it is on `G` at or below the frame, the frame's node is recorded under it;
(4) recorded keys reach, and are reached by, their head (the `Reach` facts behind `seg_onCycle`);
(5) at a root exit (no outer key of `G` has recorded the head) the children of the written set are written or `cachedE` - the step that needs the
    re-exploration argument: a `Pend` child is descended again and re-discovers a path to `G`, because by (2) no node on its former path can have been cached;
(6) a `False` write for `n` then has every child `cachedE`, so by (2) `n`, which by (1) was not `cachedE`, is reachable from none of them: `n` is on no cycle. -/
namespace Api.Rec

def Edge (g : Graph) (a b : Node) : Prop := b ∈ children g a

inductive Reach (g : Graph) : Node → Node → Prop
  | refl (a : Node) : Reach g a a
  | step {a b c : Node} : Edge g a b → Reach g b c → Reach g a c

theorem Reach.trans {g : Graph} {a b c : Node} (h1 : Reach g a b) (h2 : Reach g b c) : Reach g a c := by
  induction h1 with
  | refl => exact h2
  | step e _ ih => exact .step e (ih h2)

theorem Reach.snoc {g : Graph} {a b c : Node} (h1 : Reach g a b) (e : Edge g b c) : Reach g a c :=
  h1.trans (.step e (.refl _))

/-- `n` reaches itself by at least one edge -/
def OnCycle (g : Graph) (n : Node) : Prop := ∃ m, Edge g n m ∧ Reach g m n

theorem onCycle_of {g : Graph} {x t n : Node} (h1 : Reach g x t) (e : Edge g t n) (h2 : Reach g n x) : OnCycle g x := by
  cases h1 with
  | refl => exact ⟨n, e, h2⟩
  | step e' r => exact ⟨_, e', (r.snoc e).trans h2⟩

/-- consecutive elements are edges -/
def Chain (g : Graph) : List Node → Prop
  | [] => True
  | [_] => True
  | a :: b :: r => Edge g a b ∧ Chain g (b :: r)

theorem chain_snoc {g : Graph} : ∀ (l : List Node) (n : Node), Chain g l → (∀ t, l.getLast? = some t → Edge g t n) → Chain g (l ++ [n])
  | [], _, _, _ => trivial
  | [a], _, _, h => ⟨h a rfl, trivial⟩
  | a :: b :: r, n, hc, h =>
    ⟨hc.1, chain_snoc (b :: r) n hc.2 (fun t ht => h t (by rw [List.getLast?_cons_cons]; exact ht))⟩

theorem chain_init {g : Graph} : ∀ (l : List Node) (n : Node), Chain g (l ++ [n]) → Chain g l
  | [], _, _ => trivial
  | [_], _, _ => trivial
  | _ :: b :: r, n, h => ⟨h.1, chain_init (b :: r) n h.2⟩

theorem chain_tail {g : Graph} {a : Node} {l : List Node} (h : Chain g (a :: l)) : Chain g l := by
  cases l with
  | nil => trivial
  | cons b r => exact h.2

theorem chain_dropWhile {g : Graph} (p : Node → Bool) : ∀ l, Chain g l → Chain g (l.dropWhile p)
  | [], h => h
  | a :: l, h => by
    rw [List.dropWhile_cons]
    split
    · exact chain_dropWhile p l (chain_tail h)
    · exact h

theorem chain_reach_head {g : Graph} : ∀ (l : List Node) (a : Node), Chain g (a :: l) → ∀ x ∈ a :: l, Reach g a x
  | [], a, _, x, hx => by
    have : x = a := by simpa using hx
    subst this; exact .refl _
  | b :: r, a, h, x, hx => by
    rcases List.mem_cons.1 hx with hxa | hx'
    · subst hxa; exact .refl _
    · exact .step h.1 (chain_reach_head r b h.2 x hx')

theorem chain_reach_last {g : Graph} : ∀ (l : List Node), Chain g l → ∀ x ∈ l, ∀ t, l.getLast? = some t → Reach g x t
  | [], _, x, hx, _, _ => by cases hx
  | [a], _, x, hx, t, ht => by
    have h1 : x = a := by simpa using hx
    have h2 : a = t := by simpa using ht
    subst h1; subst h2; exact .refl _
  | a :: b :: r, h, x, hx, t, ht => by
    have ht' : (b :: r).getLast? = some t := by rw [List.getLast?_cons_cons] at ht; exact ht
    rcases List.mem_cons.1 hx with hxa | hx'
    · subst hxa
      exact .step h.1 (chain_reach_last (b :: r) h.2 b (List.mem_cons_self ..) t ht')
    · exact chain_reach_last (b :: r) h.2 x hx' t ht'

theorem dropWhile_head (n : Node) : ∀ (l : List Node) (y : Node) (ys : List Node), l.dropWhile (· != n) = y :: ys → y = n
  | [], _, _, h => by cases h
  | a :: l, y, ys, h => by
    rw [List.dropWhile_cons] at h
    split at h
    · exact dropWhile_head n l y ys h
    · rename_i hne
      have : a = y := by injection h
      subst this
      simpa using hne

theorem dropWhile_getLast (p : Node → Bool) : ∀ (l : List Node), l.dropWhile p ≠ [] → (l.dropWhile p).getLast? = l.getLast?
  | [], h => absurd rfl h
  | a :: l, h => by
    rw [List.dropWhile_cons] at h ⊢
    split
    · rename_i hp
      rw [if_pos hp] at h
      rw [dropWhile_getLast p l h]
      cases l with
      | nil => exact absurd rfl h
      | cons b r => rw [List.getLast?_cons_cons]
    · rfl

/-- the recorded segment `guard[index(n):]` lies on a cycle once the top of the guard has an edge to `n` -/
theorem seg_onCycle {g : Graph} (guard : List Node) (n t : Node) (hc : Chain g guard) (hl : guard.getLast? = some t)
    (e : Edge g t n) : ∀ x ∈ guard.dropWhile (· != n), OnCycle g x := by
  intro x hx
  cases hseg : guard.dropWhile (· != n) with
  | nil => rw [hseg] at hx; cases hx
  | cons y ys =>
    have hy : y = n := dropWhile_head n guard y ys hseg
    have hcs : Chain g (y :: ys) := hseg ▸ chain_dropWhile _ guard hc
    have hlast : (y :: ys).getLast? = some t := by
      rw [← hseg, dropWhile_getLast _ guard (by rw [hseg]; exact List.cons_ne_nil _ _), hl]
    rw [hseg] at hx
    have r1 : Reach g y x := chain_reach_head ys y hcs x hx
    have r2 : Reach g x t := chain_reach_last (y :: ys) hcs x hx t hlast
    exact onCycle_of r2 e (hy ▸ r1)

/-! ## the invariant -/

def guardOf (st : List Frame) : List Node := (st.map (·.node)).reverse

theorem guardOf_cons (f : Frame) (st : List Frame) : guardOf (f :: st) = guardOf st ++ [f.node] := by
  simp [guardOf]

structure LSound (g : Graph) (l : Local) : Prop where
  chain : Chain g (guardOf l.stack)
  todo : ∀ f ∈ l.stack, ∀ x ∈ f.todo, Edge g f.node x
  fresh : l.start.isSome = true → l.stack = []
  recOf : ∀ p ∈ l.recOf, ∀ x ∈ p.2, OnCycle g x
  writes : ∀ p ∈ l.writes, p.2 = true → OnCycle g p.1

def CSound (g : Graph) (c : Cache) : Prop := ∀ p ∈ c, p.2 = true → OnCycle g p.1

theorem addRec_sound {g : Graph} {r : List (Node × List Node)} {k : Node} {seg : List Node}
    (hr : ∀ p ∈ r, ∀ x ∈ p.2, OnCycle g x) (hs : ∀ x ∈ seg, OnCycle g x) :
    ∀ p ∈ addRec r k seg, ∀ x ∈ p.2, OnCycle g x := by
  intro p hp x hx
  unfold addRec at hp
  split at hp
  · rename_i k' old hf
    have hold : ∀ y ∈ old, OnCycle g y := fun y hy => hr _ (List.mem_of_find?_eq_some hf) y hy
    rcases List.mem_cons.1 hp with hpe | hpt
    · subst hpe
      rcases List.mem_append.1 hx with h1 | h2
      · exact hold x h1
      · exact hs x (List.mem_filter.1 h2).1
    · exact hr p (List.mem_filter.1 hpt).1 x hx
  · rcases List.mem_cons.1 hp with hpe | hpt
    · subst hpe; exact hs x hx
    · exact hr p hpt x hx

theorem enter_sound {g : Graph} {c : Cache} {l : Local} {n : Node} (hl : LSound g l) (hs : l.start = none)
    (he : ∀ t, (guardOf l.stack).getLast? = some t → Edge g t n) : LSound g (enter g c l n) := by
  unfold enter
  split
  · exact hl
  · simp only []
    split
    · rename_i hcont
      have hne : guardOf l.stack ≠ [] := by
        intro h0; unfold guardOf at h0; rw [h0] at hcont; simp at hcont
      obtain ⟨t, ht⟩ : ∃ t, (guardOf l.stack).getLast? = some t := by
        cases hq : (guardOf l.stack).getLast? with
        | none => exact absurd (List.getLast?_eq_none_iff.1 hq) hne
        | some t => exact ⟨t, rfl⟩
      have hseg := seg_onCycle (guardOf l.stack) n t hl.chain ht (he t ht)
      exact { chain := hl.chain, todo := hl.todo, fresh := hl.fresh, writes := hl.writes,
              recOf := addRec_sound hl.recOf hseg }
    · refine { chain := ?_, todo := ?_, fresh := ?_, recOf := hl.recOf, writes := hl.writes }
      · show Chain g (guardOf (⟨n, children g n⟩ :: l.stack))
        rw [guardOf_cons]
        exact chain_snoc _ n hl.chain he
      · intro f hf x hx
        rcases List.mem_cons.1 hf with hfe | hft
        · subst hfe; exact hx
        · exact hl.todo f hft x hx
      · intro h; rw [hs] at h; cases h

theorem exitFix_sound {g : Graph} {l : Local} {n : Node} {rest : List Frame} (hl : LSound g l)
    (hst : l.stack = ⟨n, []⟩ :: rest) (hs : l.start = none) : LSound g (exitFix l n rest) := by
  have hchain : Chain g (guardOf rest) := by
    have := hl.chain; rw [hst, guardOf_cons] at this; exact chain_init _ _ this
  have htodo : ∀ f ∈ rest, ∀ x ∈ f.todo, Edge g f.node x := fun f hf => hl.todo f (by rw [hst]; exact List.mem_cons_of_mem _ hf)
  have hfresh : ∀ (l' : Local), l'.start = l.start → l'.stack = rest → (l'.start.isSome = true → l'.stack = []) := by
    intro l' h1 _ h; rw [h1, hs] at h; cases h
  unfold exitFix
  split
  · rename_i k' ks hf
    have hks : ∀ x ∈ ks, OnCycle g x := fun x hx => hl.recOf _ (List.mem_of_find?_eq_some hf) x hx
    split
    · exact { chain := hchain, todo := htodo, fresh := hfresh _ rfl rfl, writes := hl.writes,
              recOf := addRec_sound (fun p hp => hl.recOf p (List.mem_filter.1 hp).1) hks }
    · refine { chain := hchain, todo := htodo, fresh := hfresh _ rfl rfl, recOf := hl.recOf, writes := ?_ }
      intro p hp _
      obtain ⟨x, hx, rfl⟩ := List.mem_map.1 hp
      exact hks x hx
  · refine { chain := hchain, todo := htodo, fresh := hfresh _ rfl rfl, recOf := hl.recOf, writes := ?_ }
    intro p hp hb
    show OnCycle g p.1
    split at hp
    · cases hp
    · have : p = (n, false) := by simpa using hp
      subst this; cases hb

theorem set_sound {g : Graph} {c : Cache} {k : Node} {b : Bool} (hc : CSound g c) (hk : b = true → OnCycle g k) :
    CSound g (c.set k b) := by
  intro p hp hb
  unfold Cache.set at hp
  rcases List.mem_cons.1 hp with hpe | hpt
  · subst hpe; exact hk hb
  · exact hc p (List.mem_filter.1 hpt).1 hb

/-- one step of a checker keeps both invariants, whatever the memo holds -/
theorem step_sound {g : Graph} {c : Cache} {l : Local} (hl : LSound g l) (hc : CSound g c) :
    LSound g (step g c l).2 ∧ CSound g (step g c l).1 := by
  obtain ⟨stack, recOf, allRec, writes, start⟩ := l
  cases writes with
  | cons w ws =>
    obtain ⟨k, b⟩ := w
    show LSound g ⟨stack, recOf, allRec, ws, start⟩ ∧ CSound g (c.set k b)
    refine ⟨{ chain := hl.chain, todo := hl.todo, fresh := hl.fresh, recOf := hl.recOf, writes := ?_ }, ?_⟩
    · intro p hp; exact hl.writes p (List.mem_cons_of_mem _ hp)
    · exact set_sound hc (fun hb => hl.writes (k, b) (List.mem_cons_self ..) hb)
  | nil =>
    cases start with
    | some n =>
      show LSound g (enter g c ⟨stack, recOf, allRec, [], none⟩ n) ∧ CSound g c
      refine ⟨?_, hc⟩
      have hst : stack = [] := hl.fresh rfl
      subst hst
      refine enter_sound ?_ rfl ?_
      · exact { chain := hl.chain, todo := hl.todo, fresh := (fun h => by cases h), recOf := hl.recOf, writes := hl.writes }
      · intro t ht; cases ht
    | none =>
      cases stack with
      | nil => exact ⟨hl, hc⟩
      | cons f rest =>
        obtain ⟨n, todo⟩ := f
        cases todo with
        | nil =>
          show LSound g (exitFix ⟨⟨n, []⟩ :: rest, recOf, allRec, [], none⟩ n rest) ∧ CSound g c
          exact ⟨exitFix_sound hl rfl rfl, hc⟩
        | cons ch todo' =>
          show LSound g (enter g c ⟨⟨n, todo'⟩ :: rest, recOf, allRec, [], none⟩ ch) ∧ CSound g c
          refine ⟨?_, hc⟩
          have hch : Edge g n ch := hl.todo ⟨n, ch :: todo'⟩ (List.mem_cons_self ..) ch (List.mem_cons_self ..)
          refine enter_sound ?_ rfl ?_
          · refine { chain := ?_, todo := ?_, fresh := (fun h => by cases h), recOf := hl.recOf, writes := hl.writes }
            · show Chain g (guardOf (⟨n, todo'⟩ :: rest))
              have := hl.chain
              rw [show guardOf (⟨⟨n, ch :: todo'⟩ :: rest, recOf, allRec, [], none⟩ : Local).stack = guardOf rest ++ [n] from guardOf_cons _ _] at this
              rw [guardOf_cons]; exact this
            · intro f hf x hx
              rcases List.mem_cons.1 hf with hfe | hft
              · subst hfe
                exact hl.todo ⟨n, ch :: todo'⟩ (List.mem_cons_self ..) x (List.mem_cons_of_mem _ hx)
              · exact hl.todo f (List.mem_cons_of_mem _ hft) x hx
          · intro t ht
            have hg : guardOf (⟨⟨n, todo'⟩ :: rest, recOf, allRec, [], none⟩ : Local).stack = guardOf rest ++ [n] := guardOf_cons _ _
            rw [hg, List.getLast?_append] at ht
            have : t = n := by simpa using ht.symm
            subst this; exact hch

/-! ## lifted to complete analyses, histories of calls, and two checkers under any schedule -/

theorem fresh_sound (g : Graph) (n : Node) : LSound g { start := some n } :=
  { chain := trivial, todo := (fun _ h => by cases h), fresh := (fun _ => rfl),
    recOf := (fun _ h => by cases h), writes := (fun _ h => by cases h) }

theorem runLocal_sound (g : Graph) : ∀ (fuel : Nat) (c : Cache) (l : Local), LSound g l → CSound g c →
    CSound g (runLocal step g fuel c l).1
  | 0, _, _, _, hc => hc
  | fuel + 1, c, l, hl, hc => by
    unfold runLocal
    split
    · exact hc
    · exact runLocal_sound g fuel _ _ (step_sound hl hc).1 (step_sound hl hc).2

theorem history_sound (g : Graph) (fuel : Nat) (starts : List Node) : CSound g (history step g fuel starts) := by
  unfold history
  suffices h : ∀ (c : Cache), CSound g c → CSound g (starts.foldl (analyseSeq step g fuel) c) from
    h [] (fun _ hp => by cases hp)
  induction starts with
  | nil => intro c hc; exact hc
  | cons s ss ih =>
    intro c hc
    rw [List.foldl_cons]
    apply ih
    unfold analyseSeq
    split
    · exact hc
    · exact runLocal_sound g fuel c _ (fresh_sound g s) hc

theorem get?_mem {c : Cache} {k : Node} {b : Bool} (h : c.get? k = some b) : ∃ p ∈ c, p.2 = b ∧ p.1 = k := by
  unfold Cache.get? at h
  cases hf : c.find? (·.1 == k) with
  | none => rw [hf] at h; cases h
  | some p =>
    rw [hf] at h
    refine ⟨p, List.mem_of_find?_eq_some hf, by simpa using h, ?_⟩
    have := List.find?_some hf
    simpa using this

/-- **Soundness of `is_recursive` (C20 / C03), any graph, any history of calls, any bound on the number of steps:** a type answered `True`
    reaches itself. -/
theorem true_sound (g : Graph) (fuel : Nat) (starts : List Node) (k : Node)
    (h : (history step g fuel starts).get? k = some true) : OnCycle g k := by
  obtain ⟨p, hp, hb, hk⟩ := get?_mem h
  exact hk ▸ history_sound g fuel starts p hp hb

/-- the same for two checkers sharing the memo under *any* schedule, with or without the lock -/
structure SSound (g : Graph) (s : State) : Prop where
  a : LSound g s.a
  b : LSound g s.b
  c : CSound g s.cache

theorem stepSched_sound (g : Graph) (s : State) (t : Bool) (h : SSound g s) : SSound g (stepSched g s t) := by
  unfold stepSched
  cases t with
  | true => exact { a := h.a, b := (step_sound h.b h.c).1, c := (step_sound h.b h.c).2 }
  | false => exact { a := (step_sound h.a h.c).1, b := h.b, c := (step_sound h.a h.c).2 }

theorem runSched_sound (g : Graph) : ∀ (sched : List Bool) (s : State), SSound g s → SSound g (runSched g s sched)
  | [], _, h => h
  | t :: ts, s, h => by
    unfold runSched; rw [List.foldl_cons]
    exact runSched_sound g ts _ (stepSched_sound g s t h)

theorem true_sound_concurrent (g : Graph) (na nb : Node) (sched : List Bool) (k : Node)
    (h : (runSched g { cache := [], a := { start := some na }, b := { start := some nb } } sched).cache.get? k = some true) :
    OnCycle g k := by
  have hs := runSched_sound g sched _ (show SSound g { cache := [], a := { start := some na }, b := { start := some nb } } from
    ⟨fresh_sound g na, fresh_sound g nb, fun _ hp => absurd hp List.not_mem_nil⟩)
  obtain ⟨p, hp, hb, hk⟩ := get?_mem h
  exact hk ▸ hs.c p hp hb

/-- on a graph without cycle every answer is `False`: no `RecMethod` is ever introduced for non-recursive types -/
theorem acyclic_all_false (g : Graph) (hg : ∀ n, ¬ OnCycle g n) (fuel : Nat) (starts : List Node) (k : Node) (b : Bool)
    (h : (history step g fuel starts).get? k = some b) : b = false := by
  cases b with
  | false => rfl
  | true => exact absurd (true_sound g fuel starts k h) (hg k)

/-- the executable reference used by the driver and the harness (`onCycleB`) only answers `true` on a cycle -/
theorem reachFrom_sound (g : Graph) : ∀ (k : Nat) (front : List Node) (x : Node), x ∈ reachFrom g k front → ∃ f ∈ front, Reach g f x
  | 0, front, x, hx => ⟨x, hx, .refl _⟩
  | k + 1, front, x, hx => by
    unfold reachFrom at hx
    rcases List.mem_append.1 hx with h1 | h2
    · exact ⟨x, h1, .refl _⟩
    · obtain ⟨f', hf', hr⟩ := reachFrom_sound g k _ x h2
      obtain ⟨f, hf, hc⟩ := List.mem_flatMap.1 hf'
      exact ⟨f, hf, .step hc hr⟩

theorem onCycleB_sound (g : Graph) (n : Node) (h : onCycleB g n = true) : OnCycle g n := by
  unfold onCycleB at h
  have hm : n ∈ reachFrom g g.length (children g n) := by simpa using h
  obtain ⟨f, hf, hr⟩ := reachFrom_sound g _ _ n hm
  exact ⟨f, hf, hr⟩

/-- the premises are met by a non-trivial run: the example graph answers `True` for `Q` -/
example : (history step g1 200 [0]).get? 4 = some true := g1_repaired_exact.2

end Api.Rec
