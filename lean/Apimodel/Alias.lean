/-!
# C11: one external name per field across every view

`ObjectField.alias` is computed once by `object_fields` (field alias or name, through the class aliaser unless
`override=False`); every view then applies its own (dynamic / global / GraphQL) aliaser to that string.  The views
are modelled by what they read: deserialization and serialization field tables, `properties` / `required` /
`dependentRequired` of both schema builders, the location of a field error, GraphQL input and output fields.
-/
namespace Api.Alias

structure Fld where
  name : String
  /-- `alias(...)` metadata -/
  alias : Option String := none
  /-- `alias(..., override=False)`: exempt from the class aliaser -/
  override : Bool := true
  deriving Repr, Inhabited

/-- the specification: `aliaser(class_aliaser(alias or name))` -/
def extName (dyn : String → String) (cls : Option (String → String)) (f : Fld) : String :=
  let base := f.alias.getD f.name
  dyn (if f.override then (match cls with | some c => c base | none => base) else base)

/-- `object_fields`: the alias stored in the `ObjectField` (class aliaser already applied) -/
def storedAlias (cls : Option (String → String)) (f : Fld) : String :=
  let base := f.alias.getD f.name
  if f.override then (match cls with | some c => c base | none => base) else base

inductive View where
  | deserialize | serialize | deserSchemaProps | deserSchemaRequired | serSchemaProps | serSchemaRequired
  | dependentRequired | errorLoc | graphqlInput | graphqlOutput
  deriving DecidableEq, Repr

/-- which string a view feeds to the aliaser.  `gqlOutUsesName` is the defect of row 16 (the GraphQL output builder
    used `field.name`); `depReqPlain` is row 23 (`dependentRequired` keys were plain `str`, so a dynamic aliaser did not
    reach them; repaired: they are `AliasedStr` like the keys of `properties`) -/
structure Quirks where
  gqlOutUsesName : Bool := false
  depReqPlain : Bool := false

def viewName (q : Quirks) (dyn : String → String) (cls : Option (String → String)) (v : View) (f : Fld) : String :=
  match v with
  | .graphqlOutput => if q.gqlOutUsesName then dyn f.name else dyn (storedAlias cls f)
  | .dependentRequired => if q.depReqPlain then storedAlias cls f else dyn (storedAlias cls f)
  | _ => dyn (storedAlias cls f)

def names (q : Quirks) (dyn : String → String) (cls : Option (String → String)) (v : View) (fs : List Fld) : List String :=
  fs.map (viewName q dyn cls v)

/-- **C11.** With the GraphQL output builder repaired, every view except `dependentRequired` lists exactly the
    external names, for every aliaser function, class aliaser and field list. -/
theorem C11_views (q : Quirks) (hq : q.gqlOutUsesName = false) (dyn : String → String) (cls : Option (String → String))
    (v : View) (hv : v ≠ .dependentRequired) (fs : List Fld) :
    names q dyn cls v fs = fs.map (extName dyn cls) := by
  unfold names
  apply List.map_congr_left
  intro f _
  cases v <;> simp [viewName, extName, storedAlias, hq] at hv ⊢

/-- two views never disagree on a field (what a consumer relies on: the key `serialize` produces is the key
    `deserialize` consumes, the schema property, the error location, the GraphQL name) -/
theorem C11_views_agree (q : Quirks) (hq : q.gqlOutUsesName = false) (dyn : String → String) (cls : Option (String → String))
    (v w : View) (hv : v ≠ .dependentRequired) (hw : w ≠ .dependentRequired) (fs : List Fld) :
    names q dyn cls v fs = names q dyn cls w fs := by
  rw [C11_views q hq dyn cls v hv, C11_views q hq dyn cls w hw]

/-- **C11, every view.** With both repairs, every view - `dependentRequired` included - lists exactly the external
    names, for every aliaser function, class aliaser and field list. -/
theorem C11_all_views (q : Quirks) (hq : q.gqlOutUsesName = false) (hd : q.depReqPlain = false) (dyn : String → String)
    (cls : Option (String → String)) (v : View) (fs : List Fld) :
    names q dyn cls v fs = fs.map (extName dyn cls) := by
  unfold names
  apply List.map_congr_left
  intro f _
  cases v <;> simp [viewName, extName, storedAlias, hq, hd]

/-- the tree's quirks record is the repaired one -/
example : ({} : Quirks).gqlOutUsesName = false ∧ ({} : Quirks).depReqPlain = false := ⟨rfl, rfl⟩

/-- `dependentRequired` follows the other views exactly when the dynamic aliaser is the identity on the stored
    aliases (row 23: a dynamic aliaser renames `properties` but not `dependentRequired`) -/
theorem C11_dependentRequired_partial (q : Quirks) (dyn : String → String) (cls : Option (String → String)) (fs : List Fld)
    (hid : ∀ f ∈ fs, dyn (storedAlias cls f) = storedAlias cls f) :
    names q dyn cls .dependentRequired fs = fs.map (extName dyn cls) := by
  unfold names
  apply List.map_congr_left
  intro f hf
  have := hid f hf
  simp only [viewName, extName, storedAlias] at this ⊢
  split <;> simp_all

/-- row 23 (before the repair), witness: under `str.upper` as dynamic aliaser the property is renamed, the `dependentRequired` key is not -/
theorem C11_dependentRequired_counterexample :
    names { depReqPlain := true } (fun s => if s = "a" then "A" else s) none .dependentRequired [{ name := "a" }]
      ≠ names { depReqPlain := true } (fun s => if s = "a" then "A" else s) none .deserSchemaProps [{ name := "a" }] := by
  decide

/-- row 16, witness: with the defect, an aliased field has two external names -/
theorem C11_graphql_counterexample :
    names { gqlOutUsesName := true } id none .graphqlOutput [{ name := "a", alias := some "al" }]
      ≠ names { gqlOutUsesName := true } id none .serialize [{ name := "a", alias := some "al" }] := by
  decide

/-- non-vacuity: a class aliaser, an exempted field and a dynamic aliaser at once -/
example : names {} (fun s => if s = "A" then "A_" else if s = "al" then "al_" else s) (some (fun s => if s = "a" then "A" else "AL")) .errorLoc
    [{ name := "a" }, { name := "b", alias := some "al", override := false }] = ["A_", "al_"] := by decide

end Api.Alias
