/-!
# C17: reference extraction and `$defs` on type graphs

A type graph is an environment of named bodies plus a root tree; `ref n` is an occurrence of the named
type `n` (a dataclass, a NewType, an enum with a `type_name`), `node` any constructor with children
(containers, unions, the field list of a class).
-/
namespace Api.Refs

inductive TyG where
  | leaf
  | ref (n : String)
  | node (kids : List TyG)
  deriving Repr, Inhabited

abbrev Env := List (String × TyG)
def body (e : Env) (n : String) : TyG :=
  match e.find? (fun p => p.1 == n) with | some p => p.2 | none => .leaf

abbrev Counts := List (String × Nat)
def count : Counts → String → Nat
  | [], _ => 0
  | (k, c) :: r, n => if k = n then c else count r n
/-- `refs[ref] = (cls, count + 1)`; a new name goes to the end (dict insertion order) -/
def incr : Counts → String → Counts
  | [], n => [(n, 1)]
  | (k, c) :: r, n => if k = n then (k, c + 1) :: r else (k, c) :: incr r n

mutual
/-- one pass over a tree, calling `onRef` at every named occurrence, left to right -/
def walk (onRef : String → Counts → Counts) : TyG → Counts → Counts
  | .leaf, r => r
  | .ref n, r => onRef n r
  | .node ks, r => walkL onRef ks r
termination_by structural t => t
def walkL (onRef : String → Counts → Counts) : List TyG → Counts → Counts
  | [], r => r
  | k :: ks, r => walkL onRef ks (walk onRef k r)
termination_by structural ks => ks
end

/-- `RefsExtractor.visit_conversion` on a named type: count the occurrence; descend only the first time -/
def visitN (e : Env) : Nat → String → Counts → Counts
  | 0, n, r => incr r n
  | k+1, n, r => if count r n > 0 then incr r n else walk (visitN e k) (body e n) (incr r n)

def extract (e : Env) (root : TyG) : Counts := walk (visitN e e.length) root []

/-- `_extract_refs`: every counted name with `all_refs`, else those met more than once -/
def selected (allRefs : Bool) (r : Counts) : List String :=
  (r.map (·.1)).filter (fun n => allRefs || count r n > 1)

inductive SchG where
  | leaf
  | ref (n : String)
  | node (kids : List SchG)
  deriving Repr, Inhabited

mutual
def buildT (onRef : String → Option SchG) : TyG → Option SchG
  | .leaf => some .leaf
  | .ref n => onRef n
  | .node ks => (buildTL onRef ks).map .node
termination_by structural t => t
def buildTL (onRef : String → Option SchG) : List TyG → Option (List SchG)
  | [] => some []
  | k :: ks => match buildT onRef k, buildTL onRef ks with
    | some s, some ss => some (s :: ss)
    | _, _ => none
termination_by structural ks => ks
end

/-- `SchemaBuilder` on a named type: a `$ref` when it has a definition, its body inlined otherwise;
    `none` = out of fuel (the real builder would recurse forever) -/
def buildN (sel : List String) (e : Env) : Nat → String → Option SchG
  | 0, n => if sel.contains n then some (.ref n) else none
  | k+1, n => if sel.contains n then some (.ref n) else buildT (buildN sel e k) (body e n)

structure Output where
  main : Option SchG
  defs : List (String × Option SchG)
  deriving Repr

/-- `deserialization_schema(root, all_refs=…)`: main schema + `$defs` (each definition is the body of the
    name, built with the same reference set: `ignore_first_ref`) -/
def schema (e : Env) (root : TyG) (allRefs : Bool) : Output :=
  let sel := selected allRefs (extract e root)
  let fuel := (extract e root).length + 1
  { main := buildT (buildN sel e fuel) root,
    defs := sel.map (fun n => (n, buildT (buildN sel e fuel) (body e n))) }

mutual
def refsOf : SchG → List String
  | .leaf => []
  | .ref n => [n]
  | .node ks => refsOfL ks
termination_by structural s => s
def refsOfL : List SchG → List String
  | [] => []
  | k :: ks => refsOf k ++ refsOfL ks
termination_by structural ks => ks
end

mutual
/-- **C17 (closed), tree level**: a built schema only mentions selected names -/
theorem buildT_refs {sel : List String} {onRef : String → Option SchG}
    (h : ∀ n s, onRef n = some s → ∀ m ∈ refsOf s, m ∈ sel) :
    ∀ (t : TyG) (s : SchG), buildT onRef t = some s → ∀ m ∈ refsOf s, m ∈ sel
  | .leaf, s, hs, m, hm => by rw [buildT] at hs; cases hs; rw [refsOf] at hm; cases hm
  | .ref n, s, hs, m, hm => by rw [buildT] at hs; exact h n s hs m hm
  | .node ks, s, hs, m, hm => by
    rw [buildT] at hs
    cases hl : buildTL onRef ks with
    | none => rw [hl] at hs; cases hs
    | some ss =>
      rw [hl] at hs; simp only [Option.map_some] at hs; cases hs
      rw [refsOf] at hm
      exact buildTL_refs h ks ss hl m hm
theorem buildTL_refs {sel : List String} {onRef : String → Option SchG}
    (h : ∀ n s, onRef n = some s → ∀ m ∈ refsOf s, m ∈ sel) :
    ∀ (ks : List TyG) (ss : List SchG), buildTL onRef ks = some ss → ∀ m ∈ refsOfL ss, m ∈ sel
  | [], ss, hs, m, hm => by rw [buildTL] at hs; cases hs; rw [refsOfL] at hm; cases hm
  | k :: ks, ss, hs, m, hm => by
    rw [buildTL] at hs
    cases h1 : buildT onRef k with
    | none => rw [h1] at hs; cases hs
    | some s =>
      cases h2 : buildTL onRef ks with
      | none => rw [h1, h2] at hs; cases hs
      | some ss' =>
        rw [h1, h2] at hs; cases hs
        rw [refsOfL, List.mem_append] at hm
        cases hm with
        | inl hm => exact buildT_refs h k s h1 m hm
        | inr hm => exact buildTL_refs h ks ss' h2 m hm
end

theorem buildN_refs (sel : List String) (e : Env) : ∀ (k : Nat) (n : String) (s : SchG),
    buildN sel e k n = some s → ∀ m ∈ refsOf s, m ∈ sel
  | 0, n, s, hs, m, hm => by
    rw [buildN] at hs
    split at hs
    · next hc => cases hs; rw [refsOf] at hm; simp at hm; subst hm; simpa using hc
    · cases hs
  | k+1, n, s, hs, m, hm => by
    rw [buildN] at hs
    split at hs
    · next hc => cases hs; rw [refsOf] at hm; simp at hm; subst hm; simpa using hc
    · exact buildT_refs (buildN_refs sel e k) _ s hs m hm

/-- **C17 (closed).** Every `$ref` of the main schema and of every definition has a definition. -/
theorem C17_closed (e : Env) (root : TyG) (allRefs : Bool) :
    let out := schema e root allRefs
    let keys := out.defs.map (·.1)
    (∀ s, out.main = some s → ∀ m ∈ refsOf s, m ∈ keys) ∧
    (∀ p ∈ out.defs, ∀ s, p.2 = some s → ∀ m ∈ refsOf s, m ∈ keys) := by
  simp only [schema, List.map_map]
  have hk : (List.map ((fun x => x.1) ∘ fun n => (n, buildT (buildN (selected allRefs (extract e root)) e ((extract e root).length + 1)) (body e n)))
      (selected allRefs (extract e root))) = selected allRefs (extract e root) := by
    simp [Function.comp_def]
  rw [hk]
  refine ⟨fun s hs m hm => buildT_refs (buildN_refs _ e _) root s hs m hm, ?_⟩
  intro p hp s hs m hm
  rw [List.mem_map] at hp
  obtain ⟨n, _, rfl⟩ := hp
  exact buildT_refs (buildN_refs _ e _) _ s hs m hm

end Api.Refs
