import Apimodel.Deser
/-! The result of a TypedDict is a well-formed dictionary (C01: "the typed image of d"; row 76): the additional keys copied under
`additional_properties` never collide with a declared field nor with each other, so every key of the result appears once. -/
namespace Api

theorem extraVals_keys (names aliases : List String) (kvs : List (String × Py)) (k : String) :
    k ∈ (extraVals names aliases kvs).map (·.1) → k ∈ unexpectedKeys aliases kvs ∧ k ∉ names := by
  intro h
  simp only [extraVals, List.mem_map, List.mem_filterMap] at h
  obtain ⟨p, ⟨k', hk', hp⟩, rfl⟩ := h
  by_cases hc : names.contains k' = true
  · rw [if_pos hc] at hp; exact absurd hp (by simp)
  · rw [if_neg hc] at hp
    cases hl : lookupKey kvs k' with
    | none => simp [hl] at hp
    | some v =>
      simp only [hl, Option.map_some, Option.some.injEq] at hp
      subst hp
      exact ⟨hk', by simpa [List.contains_iff_mem] using hc⟩

theorem filterMap_keys_nodup {α : Type} (f : String → Option (String × α)) (hf : ∀ k p, f k = some p → p.1 = k) :
    ∀ (ks : List String), ks.Nodup → ((ks.filterMap f).map (·.1)).Nodup
  | [], _ => by simp
  | k :: ks, h => by
    rw [List.nodup_cons] at h
    rw [List.filterMap_cons]
    cases hk : f k with
    | none => exact filterMap_keys_nodup f hf ks h.2
    | some p =>
      simp only [List.map_cons, List.nodup_cons]
      refine ⟨?_, filterMap_keys_nodup f hf ks h.2⟩
      intro hm
      simp only [List.mem_map, List.mem_filterMap] at hm
      obtain ⟨q, ⟨k', hk', hq⟩, he⟩ := hm
      have h1 := hf k p hk; have h2 := hf k' q hq
      rw [← he, h2] at h1
      exact h.1 (h1 ▸ hk')

theorem unexpectedKeys_nodup (aliases : List String) (kvs : List (String × Py)) (h : (kvs.map (·.1)).Nodup) :
    (unexpectedKeys aliases kvs).Nodup := by
  unfold unexpectedKeys
  exact List.Nodup.sublist (List.Sublist.map _ List.filter_sublist) h

/-- every key of a TypedDict result appears once: the deserialized fields are keyed by distinct field names, the additional keys are distinct keys of the
datum, and none of them is a field name -/
theorem typedDict_result_keys_nodup (names aliases : List String) (kvs : List (String × Py)) (vals : List (String × Val))
    (hv : (vals.map (·.1)).Nodup) (hn : ∀ p ∈ vals, p.1 ∈ names) (hk : (kvs.map (·.1)).Nodup) :
    ((vals ++ extraVals names aliases kvs).map (·.1)).Nodup := by
  rw [List.map_append, List.nodup_append]
  refine ⟨hv, ?_, ?_⟩
  · unfold extraVals
    apply filterMap_keys_nodup _ _ _ (unexpectedKeys_nodup aliases kvs hk)
    intro k p hp
    by_cases hc : names.contains k = true
    · rw [if_pos hc] at hp; exact absurd hp (by simp)
    · rw [if_neg hc] at hp
      cases hl : lookupKey kvs k with
      | none => simp [hl] at hp
      | some v => simp only [hl, Option.map_some, Option.some.injEq] at hp; rw [← hp]
  · intro a ha b hb hab
    simp only [List.mem_map] at ha
    obtain ⟨p, hp, rfl⟩ := ha
    exact (extraVals_keys names aliases kvs b hb).2 (hab ▸ hn p hp)

/-- the defect of row 76, replayed: without the test on the field names the key `b` appears twice (the Python dict then keeps the later, untyped value) -/
example : ((([("b", Val.null)] : List (String × Val)) ++ extraVals [] ["B_al"] [("B_al", Py.null), ("b", Py.int 1)]).map (·.1)) = ["b", "b"] ∧
    ((([("b", Val.null)] : List (String × Val)) ++ extraVals ["b"] ["B_al"] [("B_al", Py.null), ("b", Py.int 1)]).map (·.1)) = ["b"] := by decide

end Api
