import Apimodel.Generated.RawDc
/-! C08 (`override_dataclass_constructors` never changes a result): the constructor override builds an instance field by field, bypassing `__init__`; it is
sound only for a dataclass whose construction *is* the assignment of its fields.  `is_raw_dataclass` of the working tree is the conjunction of ten
conditions, each of which excludes one way in which construction is more than that: a metaclass, slots anywhere in the hierarchy (row 88), `__post_init__`
(inherited or not: the seeded change `C08-13` tested the class's own namespace), a hand-written `__init__` (row 88), `init=False` fields, descriptors in the
place of fields (row 88), `__new__`, `__setattr__`, a constructor signature that is not the list of fields.  The model has no `__init__` to bypass - an
object value is its fields - so this list is the hypothesis under which `C08`'s statements about the override speak about the code. -/
namespace Api

theorem raw_dataclass_conditions :
    Generated.rawdc_conjuncts = [
      "dataclasses.is_dataclass(cls)",
      "type(cls) is type",
      "not any(('__slots__' in vars(base) for base in cls.__mro__[:-1]))",
      "not hasattr(cls, '__post_init__')",
      "getattr(cls, dataclasses._PARAMS).init",
      "all((f.init for f in dataclasses.fields(cls)))",
      "not any((hasattr(type(inspect.getattr_static(cls, f.name, None)), '__set__') for f in dataclasses.fields(cls)))",
      "cls.__new__ is object.__new__",
      "cls.__setattr__ is object.__setattr__ or getattr(cls, dataclasses._PARAMS).frozen",
      "list(inspect.signature(cls.__init__, follow_wrapped=False).parameters) == ['__dataclass_self__' if 'self' in dataclasses.fields(cls) else 'self'] + [f.name for f in dataclasses.fields(cls)]"] := by
  decide +kernel

end Api
