import Apimodel.Rec
/-! The memo of the recursion analysis and the default conversion (C03 / C09-style staleness; repair of row 73).

What a type reaches depends on the default conversion in force (`Foo` may be converted from `int` under one and from `Node` under another), so
the analysed graph is a function of the default conversion.  Before the repair the memo (`recursion_cache`) was one dictionary per checker class,
shared by every default conversion: an answer recorded under one graph was read under another.  `shared_memo_counterexample` replays the
defect in the model (the second analysis answers "not recursive" for a type that is recursive in its own graph, and deserialization then
compiles it without `RecMethod` and overflows the stack); `memo_per_context` is the repaired protocol: one memo per context, an analysis in one
context never changes what another context reads. -/
namespace Api.Rec

/-- a whole sequential analysis of `n` (one thread, `fuel` atomic steps) starting from the memo `c` -/
def analyse (g : Graph) (c : Cache) (n : Node) (fuel : Nat) : Cache × Local :=
  (List.range fuel).foldl (fun (s : Cache × Local) _ => step g s.1 s.2) (c, { start := some n })

/-- `Node(v: int, child: Optional[Foo])` = 0, `int` = 1, `Optional[Foo]` = 2; under the first default conversion `Foo` is converted from `int` (3) -/
def gInt : Graph := [(0, [1, 2]), (1, []), (2, [3]), (3, [])]
/-- under the second one `Foo` is converted from `Node` -/
def gNode : Graph := [(0, [1, 2]), (1, []), (2, [0])]

theorem shared_memo_counterexample :
    -- a cold analysis in the second context: recursive
    (analyse gNode [] 0 40).2.done = true ∧ (analyse gNode [] 0 40).1.get? 0 = some true ∧
    -- the same analysis reading the memo left by the first context: the stale "not recursive"
    (analyse gInt [] 0 40).2.done = true ∧
    (analyse gNode (analyse gInt [] 0 40).1 0 40).2.done = true ∧ (analyse gNode (analyse gInt [] 0 40).1 0 40).1.get? 0 = some false := by
  decide +kernel

/-- memos keyed by context (the default conversion): `Ctx → Cache` -/
def Memos (Ctx : Type) := Ctx → Cache

def analyseIn {Ctx : Type} [DecidableEq Ctx] (graph : Ctx → Graph) (m : Memos Ctx) (k : Ctx) (n : Node) (fuel : Nat) : Memos Ctx :=
  fun k' => if k' = k then (analyse (graph k) (m k) n fuel).1 else m k'

/-- The repaired protocol: an analysis under one default conversion leaves the memo of every other one as it was, and its own result is the one
of an analysis that has only ever seen its own graph. -/
theorem memo_per_context {Ctx : Type} [DecidableEq Ctx] (graph : Ctx → Graph) (m : Memos Ctx) (k : Ctx) (n : Node) (fuel : Nat) :
    (∀ k', k' ≠ k → analyseIn graph m k n fuel k' = m k') ∧ analyseIn graph m k n fuel k = (analyse (graph k) (m k) n fuel).1 := by
  constructor
  · intro k' h; simp [analyseIn, h]
  · simp [analyseIn]

/-- ... so any history of analyses in other contexts is invisible: the memo read in context `k` after the history is the one before it. -/
theorem memo_history_invisible {Ctx : Type} [DecidableEq Ctx] (graph : Ctx → Graph) (k : Ctx) :
    ∀ (hist : List (Ctx × Node × Nat)) (m : Memos Ctx), (∀ h ∈ hist, h.1 ≠ k) →
      (hist.foldl (fun m h => analyseIn graph m h.1 h.2.1 h.2.2) m) k = m k
  | [], _, _ => rfl
  | h :: hist, m, hk => by
    have h1 : h.1 ≠ k := hk h (List.mem_cons_self ..)
    have := memo_history_invisible graph k hist (analyseIn graph m h.1 h.2.1 h.2.2) (fun x hx => hk x (List.mem_cons_of_mem _ hx))
    simp only [List.foldl_cons, this]
    exact (memo_per_context graph m h.1 h.2.1 h.2.2).1 k (Ne.symm h1)

/-- the replayed defect disappears: with one memo per context the second context answers as a cold start does -/
example : (analyseIn (fun b : Bool => if b then gNode else gInt) (analyseIn (fun b : Bool => if b then gNode else gInt) (fun _ => []) false 0 40) true 0 40) true
    = (analyse gNode [] 0 40).1 := by decide +kernel

end Api.Rec
