/-!
# `with_fields_set` (C15): the per-instance set of "set" fields as a state machine
Class directly decorated with `with_fields_set` (no inheritance in this stage).
-/
namespace Api

structure FSClass where
  /-- `__init__` parameters in order (init fields and `InitVar`s) -/
  params : List String
  initVars : List String
  /-- `InitVar`s that have a default (what `replace` re-injects) -/
  initVarsWithDefault : List String
  /-- `field(init=False)` and `default_as_set` fields: always reported as set -/
  postInit : List String
  deriving Repr, Inhabited

inductive FSOp where
  | construct (nargs : Nat) (kwargs : List String)     -- `cls(*args, **kwargs)` / deserialization
  | setattr (name : String)
  | setFields (names : List String) (overwrite : Bool)
  | unsetFields (names : List String)
  | replace (changes : List String)                    -- `apischema.dataclasses.replace`
  deriving Repr, Inhabited

abbrev FSet := List String

def insertS (s : String) : FSet → FSet
  | [] => [s]
  | x :: xs => if s = x then x :: xs else if s < x then s :: x :: xs else x :: insertS s xs

def union (a b : FSet) : FSet := b.foldl (fun acc s => insertS s acc) a
def ofList (l : List String) : FSet := union [] l
def diff (a : FSet) (b : List String) : FSet := a.filter (fun s => !b.contains s)

/-- `new_init`: whatever `__setattr__` recorded during `__init__` is replaced by this -/
def afterInit (c : FSClass) (nargs : Nat) (kwargs : List String) : FSet :=
  union (diff (ofList (c.params.take nargs ++ kwargs)) c.initVars) c.postInit

def step (c : FSClass) (s : FSet) : FSOp → FSet
  | .construct n ks => afterInit c n ks
  | .setattr n => insertS n s
  | .setFields ns ow => union (if ow then [] else s) ns
  | .unsetFields ns => diff s ns
  | .replace changes =>
      -- `_replace`: the new instance gets `set_fields(result, *fields_set(obj), *changed fields, overwrite=True)`,
      -- init variables (given or re-injected defaults) left out (repair of row 24)
      union (union [] s) (changes.filter (fun v => !c.initVars.contains v))

def runOps (c : FSClass) (s : FSet) (ops : List FSOp) : FSet := ops.foldl (step c) s

/-- `fields_set(deserialize(T, d))`: the keys present in `d`, by field name -/
def afterDeserialize (c : FSClass) (present : List String) : FSet := afterInit c 0 present

theorem mem_insertS {s x : String} : ∀ {l : FSet}, x ∈ insertS s l ↔ x = s ∨ x ∈ l
  | [] => by simp [insertS]
  | y :: ys => by
    unfold insertS
    split
    · rename_i h; subst h; simp
    · split
      · simp
      · simp only [List.mem_cons, mem_insertS (l := ys)]
        constructor
        · rintro (h | h | h) <;> simp [h]
        · rintro (h | h | h) <;> simp [h]

theorem mem_union {a : FSet} {b : List String} {x : String} : x ∈ union a b ↔ x ∈ a ∨ x ∈ b := by
  unfold union
  induction b generalizing a with
  | nil => simp
  | cons y ys ih =>
    rw [List.foldl_cons, ih, mem_insertS]
    simp only [List.mem_cons]
    constructor
    · rintro ((h | h) | h) <;> simp [h]
    · rintro (h | h | h) <;> simp [h]

theorem mem_diff {a : FSet} {b : List String} {x : String} : x ∈ diff a b ↔ x ∈ a ∧ x ∉ b := by
  unfold diff; simp [List.mem_filter]

/-- **C15 (deserialization clause):** after `deserialize(T, d)` a field is reported as set iff its
    key was present (and it is not an init variable), or it is `init=False` / `default_as_set` -/
theorem C15_deserialize (c : FSClass) (present : List String) (x : String) :
    x ∈ afterDeserialize c present ↔ (x ∈ present ∧ x ∉ c.initVars) ∨ x ∈ c.postInit := by
  unfold afterDeserialize afterInit ofList
  simp [mem_union, mem_diff]

/-- assignment marks exactly one more field -/
theorem C15_setattr (c : FSClass) (s : FSet) (n x : String) :
    x ∈ step c s (.setattr n) ↔ x = n ∨ x ∈ s := by
  simp [step, mem_insertS]

theorem C15_unset (c : FSClass) (s : FSet) (ns : List String) (x : String) :
    x ∈ step c s (.unsetFields ns) ↔ x ∈ s ∧ x ∉ ns := by
  simp [step, mem_diff]

theorem C15_set (c : FSClass) (s : FSet) (ns : List String) (ow : Bool) (x : String) :
    x ∈ step c s (.setFields ns ow) ↔ (ow = false ∧ x ∈ s) ∨ x ∈ ns := by
  cases ow <;> simp [step, mem_union]

/-- `replace`: what was set stays set, the changed fields become set, init variables never do (row 24 repaired) -/
theorem C15_replace (c : FSClass) (s : FSet) (changes : List String) (x : String) :
    x ∈ step c s (.replace changes) ↔ x ∈ s ∨ (x ∈ changes ∧ x ∉ c.initVars) := by
  simp [step, mem_union, List.mem_filter]

/-- the witness of row 24 on the repaired machine -/
example : "d" ∉ step { params := ["a", "d"], initVars := ["d"], initVarsWithDefault := ["d"], postInit := [] }
      [] (.replace ["a"]) := by decide

#print axioms C15_deserialize
end Api
