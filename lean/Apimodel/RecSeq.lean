import Apimodel.Rec
/-! # The sequential recursion analysis (`RecursiveChecker.visit`), as a function of the history of `is_recursive` calls

`Api.Rec.step` is one atomic step of one checker.  This file runs it to completion, one analysis after the other (what the
lock of `is_recursive` guarantees: `C20_mutex`), over any history of calls, and states what the answers mean on the type graph:
`onCycle g n` — `n` reaches itself by at least one edge.  `RecursiveConversionsVisitor.visit` hands every type answered `False`
to a fresh visitor (`visit_not_recursive`), which knows nothing of the lazy methods of its caller: an answer `False` for a type
that lies on a cycle is an unbounded recursion while the method is compiled (`RecursionError`), so the answers must be *exact*.

`stepEarly` is the exit of `visit` as it was before the repair of row 96 (a head wrote its cycle as soon as it returned, even
when that cycle was part of a bigger one still being explored); `early_write_counterexample` replays the defect. -/
namespace Api.Rec

/-- exit of `visit(n)` before the repair: the recorded cycle of a head is written at once -/
def stepEarly (g : Graph) (c : Cache) (l : Local) : Cache × Local :=
  match l.writes with
  | (k, b) :: ws => (c.set k b, { l with writes := ws })
  | [] =>
    match l.start with
    | some n => (c, enter g c { l with start := none } n)
    | none =>
      match l.stack with
      | [] => (c, l)
      | ⟨n, []⟩ :: rest => (c, { l with stack := rest, writes := exitWrites l n })
      | ⟨n, ch :: todo⟩ :: rest => (c, enter g c { l with stack := ⟨n, todo⟩ :: rest } ch)

/-- run one checker until its call has returned (fuel: an upper bound on the number of steps) -/
def runLocal (st : Graph → Cache → Local → Cache × Local) (g : Graph) : Nat → Cache → Local → Cache × Local
  | 0, c, l => (c, l)
  | fuel + 1, c, l => if l.done then (c, l) else runLocal st g fuel (st g c l).1 (st g c l).2

/-- `is_recursive(n)`: a memo hit answers at once, otherwise one complete analysis from `n` -/
def analyseSeq (st : Graph → Cache → Local → Cache × Local) (g : Graph) (fuel : Nat) (c : Cache) (n : Node) : Cache :=
  if (c.get? n).isSome then c else (runLocal st g fuel c { start := some n }).1

/-- a history of `is_recursive` calls on one memo -/
def history (st : Graph → Cache → Local → Cache × Local) (g : Graph) (fuel : Nat) (starts : List Node) : Cache :=
  starts.foldl (analyseSeq st g fuel) []

/-! ## the specification on the graph -/

/-- nodes reachable from the nodes of `front` in at most `k` further edges (breadth-first, `front` included) -/
def reachFrom (g : Graph) : Nat → List Node → List Node
  | 0, front => front
  | k + 1, front => front ++ reachFrom g k (front.flatMap (children g))

/-- `n` lies on a cycle: one of its children reaches it (paths of at most `|g|` edges suffice) -/
def onCycleB (g : Graph) (n : Node) : Bool := (reachFrom g g.length (children g n)).contains n

/-- every answer of the memo is exact -/
def exact (g : Graph) (c : Cache) : Bool := c.all (fun p => p.2 == onCycleB g p.1)

/-! ## the defect of row 96, replayed

`HP(h: H, q: Q)`, `H(x: X)`, `X(h: H, y: Y)`, `Y(hp: HP)`, `Q(x: X)`: the cycle `H → X → H` is found and written when `H`
returns, while `X` also belongs to the cycle through `Y` and `HP` that is still open; `Q`, visited next, finds `X` in the memo,
does not look further, and is written non-recursive although `Q → X → Y → HP → Q`. -/
def g1 : Graph := [(0, [1, 4]), (1, [2]), (2, [1, 3]), (3, [0]), (4, [2])]

theorem early_write_counterexample :
    (history stepEarly g1 200 [0]).get? 4 = some false ∧ onCycleB g1 4 = true := by decide +kernel

/-- the same history under the repaired exit: every answer exact (an evaluation on the example, not the general claim) -/
theorem g1_repaired_exact : exact g1 (history step g1 200 [0]) = true ∧ (history step g1 200 [0]).get? 4 = some true := by
  decide +kernel

/-- and from the other end: `Q` first, then `HP` (evaluation) -/
theorem g1_repaired_exact' : exact g1 (history step g1 200 [4, 0]) = true := by decide +kernel

end Api.Rec

/-! ## what a wrong `False` costs: the consumer of the answers

`RecursiveConversionsVisitor.visit`: a type answered `True` gets a placeholder in the visitor's own cache while its children are compiled (a second
visit returns the placeholder); a type answered `False` is compiled by a *fresh* visitor (`visit_not_recursive` → the method factory), whose cache is
empty.  `compileDepth` is the depth of that recursion under a bound (`none`: the bound was exceeded — Python's `RecursionError`).  It ignores the `_first_visit` flag (`compileF` below has it, and is
what the correspondence compares with the code). -/
namespace Api.Rec

/-- the deepest of the visits of the children, `none` as soon as one of them exceeds the bound (the later ones are not visited: the exception propagates) -/
def deepest (f : Node → Option Nat) : List Node → Option Nat
  | [] => some 0
  | x :: xs => match f x with
    | none => none
    | some a => (deepest f xs).map (Nat.max a)

def compileDepth (g : Graph) (memo : Cache) : Nat → List Node → Node → Option Nat
  | 0, _, _ => none
  | fuel + 1, vc, n =>
    if memo.get? n == some true then
      if vc.contains n then some 0                                  -- the placeholder of the visit in progress
      else (deepest (compileDepth g memo fuel (n :: vc)) (children g n)).map (· + 1)
    else (deepest (compileDepth g memo fuel []) (children g n)).map (· + 1)   -- a fresh visitor

/-! ### the same with the `_first_visit` flag

The flag is an attribute of the visitor: the first non-recursive type met while it is set is compiled in place (with the visitor's current cache) and clears it;
`visit_with_conv` - every field of an object - restores the attributes of the visitor when it returns (`context_setter`), the flag included, while the elements of
collections, mappings and unions are visited one after the other on the same attributes.  `objs`: the nodes whose children are visited that way. -/

def visitKids (f : Bool → Node → Option (Nat × Bool)) (restore : Bool) : Bool → List Node → Option (Nat × Bool)
  | first, [] => some (0, first)
  | first, x :: xs =>
    match f first x with
    | none => none
    | some (d, first') => (visitKids f restore (if restore then first else first') xs).map (fun r => (Nat.max d r.1, r.2))

def compileF (g : Graph) (objs : List Node) (memo : Cache) : Nat → List Node → Bool → Node → Option (Nat × Bool)
  | 0, _, _, _ => none
  | fuel + 1, vc, first, n =>
    if memo.get? n == some true then
      if vc.contains n then some (0, first)
      else (visitKids (compileF g objs memo fuel (n :: vc)) (objs.contains n) first (children g n)).map (fun r => (r.1 + 1, r.2))
    else if first then                                              -- in place, the flag cleared
      (visitKids (compileF g objs memo fuel vc) (objs.contains n) false (children g n)).map (fun r => (r.1 + 1, r.2))
    else                                                            -- a fresh visitor (its own cache and flag); the caller's flag is untouched
      (visitKids (compileF g objs memo fuel []) (objs.contains n) false (children g n)).map (fun r => (r.1 + 2, first))

/-- row 96 in the model: with the memo left by the former exit (`Q` answered `False` on a cycle) compiling `HP` exceeds any reasonable bound
    (here 60 nested visits for five classes), with the repaired memo the recursion is four deep (evaluations on the example graph) -/
theorem wrong_false_overflows :
    compileDepth g1 (history stepEarly g1 200 [0]) 60 [] 0 = none ∧ compileDepth g1 (history step g1 200 [0]) 60 [] 0 = some 4 := by
  decide +kernel

/-- the type graph of the five classes of row 96 as the checker keys it: `HP` = 0, `int` = 1, `Optional[H]` = 2, `H` = 3, `Optional[X]` = 4, `X` = 5,
    `Optional[Y]` = 6, `Y` = 7, `Optional[HP]` = 8, `NoneType` = 9, `Optional[Q]` = 10, `Q` = 11 (every class has a field `v: int` first) -/
def g1t : Graph := [(0, [1, 2, 10]), (1, []), (2, [3, 9]), (3, [1, 4]), (4, [5, 9]), (5, [1, 2, 6]), (6, [7, 9]), (7, [1, 8]), (8, [0, 9]), (9, []),
                    (10, [11, 9]), (11, [1, 4])]
def g1tObjects : List Node := [0, 3, 5, 7, 11]

/-- the replay with the flag on the real type graph: the former exit answers `False` for `Optional[Q]` and `Q`, which lie on a cycle, and compiling `HP`
    exceeds the bound; with the repaired exit every answer is exact and the compilation returns (evaluations on the example) -/
theorem wrong_false_overflows_flag :
    (history stepEarly g1t 500 [0]).get? 11 = some false ∧ onCycleB g1t 11 = true ∧
    compileF g1t g1tObjects (history stepEarly g1t 500 [0]) 46 [] true 0 = none ∧
    exact g1t (history step g1t 500 [0]) = true ∧
    (compileF g1t g1tObjects (history step g1t 500 [0]) 46 [] true 0).isSome = true := by
  decide +kernel

end Api.Rec
