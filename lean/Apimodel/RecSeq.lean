import Apimodel.Rec
/-! # The sequential recursion analysis (`RecursiveChecker.visit`), as a function of the history of `is_recursive` calls

`Api.Rec.step` is one atomic step of one checker.  This file runs it to completion, one analysis after the other (what the
lock of `is_recursive` guarantees: `C20_mutex`), over any history of calls, and states what the answers mean on the type graph:
`onCycle g n` — `n` reaches itself by at least one edge.  `RecursiveConversionsVisitor.visit` hands every type answered `False`
to a fresh visitor (`visit_not_recursive`), which knows nothing of the lazy methods of its caller: an answer `False` for a type
that lies on a cycle is an unbounded recursion while the method is compiled (`RecursionError`), so the answers must be *exact*.

`stepEarly` is the exit of `visit` as it was before the repair of row 96 (a head wrote its cycle as soon as it returned, even
when that cycle was part of a bigger one still being explored); `early_write_counterexample` replays the defect. -/
namespace Api.Rec

/-- exit of `visit(n)` before the repair: the recorded cycle of a head is written at once -/
def stepEarly (g : Graph) (c : Cache) (l : Local) : Cache × Local :=
  match l.writes with
  | (k, b) :: ws => (c.set k b, { l with writes := ws })
  | [] =>
    match l.start with
    | some n => (c, enter g c { l with start := none } n)
    | none =>
      match l.stack with
      | [] => (c, l)
      | ⟨n, []⟩ :: rest => (c, { l with stack := rest, writes := exitWrites l n })
      | ⟨n, ch :: todo⟩ :: rest => (c, enter g c { l with stack := ⟨n, todo⟩ :: rest } ch)

/-- run one checker until its call has returned (fuel: an upper bound on the number of steps) -/
def runLocal (st : Graph → Cache → Local → Cache × Local) (g : Graph) : Nat → Cache → Local → Cache × Local
  | 0, c, l => (c, l)
  | fuel + 1, c, l => if l.done then (c, l) else runLocal st g fuel (st g c l).1 (st g c l).2

/-- `is_recursive(n)`: a memo hit answers at once, otherwise one complete analysis from `n` -/
def analyseSeq (st : Graph → Cache → Local → Cache × Local) (g : Graph) (fuel : Nat) (c : Cache) (n : Node) : Cache :=
  if (c.get? n).isSome then c else (runLocal st g fuel c { start := some n }).1

/-- a history of `is_recursive` calls on one memo -/
def history (st : Graph → Cache → Local → Cache × Local) (g : Graph) (fuel : Nat) (starts : List Node) : Cache :=
  starts.foldl (analyseSeq st g fuel) []

/-! ## the specification on the graph -/

/-- nodes reachable from the nodes of `front` in at most `k` further edges (breadth-first, `front` included) -/
def reachFrom (g : Graph) : Nat → List Node → List Node
  | 0, front => front
  | k + 1, front => front ++ reachFrom g k (front.flatMap (children g))

/-- `n` lies on a cycle: one of its children reaches it (paths of at most `|g|` edges suffice) -/
def onCycleB (g : Graph) (n : Node) : Bool := (reachFrom g g.length (children g n)).contains n

/-- every answer of the memo is exact -/
def exact (g : Graph) (c : Cache) : Bool := c.all (fun p => p.2 == onCycleB g p.1)

/-! ## the defect of row 96, replayed

`HP(h: H, q: Q)`, `H(x: X)`, `X(h: H, y: Y)`, `Y(hp: HP)`, `Q(x: X)`: the cycle `H → X → H` is found and written when `H`
returns, while `X` also belongs to the cycle through `Y` and `HP` that is still open; `Q`, visited next, finds `X` in the memo,
does not look further, and is written non-recursive although `Q → X → Y → HP → Q`. -/
def g1 : Graph := [(0, [1, 4]), (1, [2]), (2, [1, 3]), (3, [0]), (4, [2])]

theorem early_write_counterexample :
    (history stepEarly g1 200 [0]).get? 4 = some false ∧ onCycleB g1 4 = true := by decide +kernel

/-- the same history under the repaired exit: every answer exact (an evaluation on the example, not the general claim) -/
theorem g1_repaired_exact : exact g1 (history step g1 200 [0]) = true ∧ (history step g1 200 [0]).get? 4 = some true := by
  decide +kernel

/-- and from the other end: `Q` first, then `HP` (evaluation) -/
theorem g1_repaired_exact' : exact g1 (history step g1 200 [4, 0]) = true := by decide +kernel

end Api.Rec
