import Apimodel.Ser
import Apimodel.Constraints
/-!
# JSON Schema (stage 1): syntax, `DeserializationSchemaBuilder`, 2020-12 validation
Keywords: type, const, enum, numeric/string/array/object bounds, pattern, uniqueItems, items,
prefixItems, properties, required, additionalProperties, patternProperties, anyOf, default.
No `$ref` (every named type used once), no flattened / pattern / additional fields yet.
-/
namespace Api

/-- JSON type names; `integer ⊂ number` -/
inductive JT where
  | null | boolean | integer | number | string | array | object
  deriving DecidableEq, Repr, Inhabited

def JT.name : JT → String
  | .null => "null" | .boolean => "boolean" | .integer => "integer" | .number => "number"
  | .string => "string" | .array => "array" | .object => "object"

def JClass.jt : JClass → JT
  | .null => .null | .bool => .boolean | .int => .integer | .float => .number
  | .str => .string | .list => .array | .dict => .object

/-- a schema node: every keyword optional -/
inductive Sch where
  | mk (type : List JT)                         -- [] = absent
       (const : Option Lit) (enum : List Lit)
       (cons : Constraints)
       (items : Option (Bool ⊕ Sch))
       (prefixItems : Option (List Sch))
       (properties : List (String × Sch)) (required : List String)
       (additionalProperties : Option (Bool ⊕ Sch))
       (patternProperties : List (Pat × Sch))
       (anyOf : List Sch)
       (default : Option Py)
  deriving Repr, Inhabited

def Sch.empty : Sch := .mk [] none [] {} none none [] [] none [] [] none
def Sch.ofType (t : JT) : Sch := .mk [t] none [] {} none none [] [] none [] [] none

def Sch.type : Sch → List JT | .mk t _ _ _ _ _ _ _ _ _ _ _ => t
def Sch.cons : Sch → Constraints | .mk _ _ _ c _ _ _ _ _ _ _ _ => c
def Sch.isEmpty : Sch → Bool
  | .mk [] none [] c none none [] [] none [] [] none => c == {}
  | _ => false
/-- `alt.keys() == {"type"}` -/
def Sch.onlyType : Sch → Bool
  | .mk (_ :: _) none [] c none none [] [] none [] [] none => c == {}
  | _ => false
def Sch.withType (s : Sch) (t : List JT) : Sch :=
  match s with | .mk _ a b c d e f g h i j k => .mk t a b c d e f g h i j k
def Sch.withCons (s : Sch) (c : Constraints) : Sch :=
  match s with | .mk t a b _ d e f g h i j k => .mk t a b c d e f g h i j k
def Sch.withDefault (s : Sch) (d : Option Py) : Sch :=
  match s with | .mk t a b c e f g h i j k _ => .mk t a b c e f g h i j k d
def Sch.hasDefault : Sch → Bool | .mk _ _ _ _ _ _ _ _ _ _ _ d => d.isSome

/-- `json_schema_kwargs`: `integer` is dropped from a type list that has `number` -/
def normTypes (ts : List JT) : List JT :=
  if ts.contains .integer && ts.contains .number then ts.filter (· != .integer) else ts

/-- `list(dict.fromkeys(types))` in `_visited_union` (since the repair of row 35: `Union[C1, C2]` of two
    `{"type": "object"}` alternatives no longer yields `["object", "object"]`) -/
def dedupJT (ts : List JT) : List JT :=
  ts.foldl (fun acc t => if acc.contains t then acc else acc ++ [t]) []

def litJT (l : Lit) : JT := l.jclass.jt

/-- `SchemaBuilder.literal` -/
def literalSchema (vs : List Lit) : Sch :=
  let types := (vs.map litJT).foldl (fun acc t => if acc.contains t then acc else acc ++ [t]) []
  match vs with
  | [v] => .mk types (some v) [] {} none none [] [] none [] [] none
  | vs => .mk types none vs {} none none [] [] none [] [] none   -- `types` is a `set`: not normalised

/-- `json_schema(...)` drops default-valued keywords (`items: {}` / `true`, `additionalProperties: {}` / `true`)
    *before* `_visited_union` looks at the keys of an alternative: the builder never stores them -/
def subKw (s : Sch) : Option (Bool ⊕ Sch) := if s.isEmpty then none else some (.inr s)
def apKw (ap : Bool) : Option (Bool ⊕ Sch) := if ap then none else some (.inl false)

def Sch.noLits : Sch → Bool | .mk _ c e _ _ _ _ _ _ _ _ _ => c.isNone && e.isEmpty

/-- `_visited_union` -/
def unionSchema (rs : List Sch) : Sch :=
  match rs with
  | [r] => r
  | rs =>
    if rs.any Sch.isEmpty then Sch.empty
    else if rs.all Sch.onlyType then Sch.ofType' (normTypes (dedupJT (rs.flatMap Sch.type)))
    else if rs.length == 2 && rs.all (fun r => !r.type.isEmpty) && rs.any (fun r => r.onlyType && r.type == [.null])
            && rs.all Sch.noLits then     -- (repair of row 28: not with `enum` / `const`)
      match rs.find? (fun r => !(r.onlyType && r.type == [.null])) with
      | some r => if r.type.contains .null then r else r.withType (r.type ++ [.null])
      | Option.none => Sch.ofType .null
    else .mk [] none [] {} none none [] [] none [] rs none
where
  Sch.ofType' (ts : List JT) : Sch := .mk ts none [] {} none none [] [] none [] [] none

/-- serialized default of a field, when it can be serialized (`suppress(Exception)`) -/
def dfltJson (d : Dflt) : Py :=
  match d with
  | .lit l => litToPy l
  | .emptyList => .list []
  | .emptyDict => .dict []

/-- `Constraints.merge_into(base_schema)` -/
def mergeInto (c : Constraints) (s : Sch) : Sch := s.withCons (c.merge s.cons)
/-- `mapping()`: the key schema's pattern becomes `patternProperties` -/
def mappingSchema (k v : Sch) : Sch :=
  match k.cons.pattern with
  | some p => .mk [.object] none [] {} none none [] [] none [(p, v)] [] none
  | Option.none => .mk [.object] none [] {} none none [] [] (subKw v) [] [] none
/-- `visit_field`: default added for non-required fields -/
def fieldSchema (f : FieldInfo) (t : Ty) (s : Sch) : Sch :=
  -- `with suppress(Exception): result["default"] = serialize(field.type, default, check_type=True)`
  if !f.required && !s.hasDefault && t.serFailure?.isNone then s.withDefault (f.dflt.map dfltJson) else s


-- `DeserializationSchemaBuilder.visit`
mutual
def buildD (ap : Bool) : Ty → Sch
  | .null => .ofType .null | .bool => .ofType .boolean | .int => .ofType .integer
  | .float => .ofType .number | .str => .ofType .string
  | .any => .empty
  | .list t => .mk [.array] none [] {} (subKw (buildD ap t)) none [] [] none [] [] none
  | .vtuple t => .mk [.array] none [] {} (subKw (buildD ap t)) none [] [] none [] [] none
  | .set t => .mk [.array] none [] { unique := true } (subKw (buildD ap t)) none [] [] none [] [] none
  | .frozenset t => .mk [.array] none [] { unique := true } (subKw (buildD ap t)) none [] [] none [] [] none
  | .tuple ts => .mk [.array] none [] { minItems := some ts.length, maxItems := some ts.length }
      (some (.inl false)) (some (buildDL ap ts)) [] [] none [] [] none
  | .mapping k v => mappingSchema (buildD ap k) (buildD ap v)
  | .union ts => unionSchema (buildDL ap ts)
  | .literal vs => literalSchema vs
  | .enum _ ms => literalSchema (ms.map (·.2))
  | .newtype _ t => buildD ap t
  | .ann c t => mergeInto c (buildD ap t)
  | .obj _ fs => .mk [.object] none [] {} none none (buildDF ap fs) (requiredF fs) (apKw ap) [] [] none
termination_by structural t => t
def buildDL (ap : Bool) : List Ty → List Sch
  | [] => []
  | t :: ts => buildD ap t :: buildDL ap ts
termination_by structural ts => ts
def buildDF (ap : Bool) : List (FieldInfo × Ty) → List (String × Sch)
  | [] => []
  | (f, t) :: fs => (f.alias, fieldSchema f t (buildD ap t)) :: buildDF ap fs
termination_by structural fs => fs
def requiredF : List (FieldInfo × Ty) → List String
  | [] => []
  | (f, _) :: fs => (if f.required then [f.alias] else []) ++ requiredF fs
termination_by structural fs => fs
end

end Api
