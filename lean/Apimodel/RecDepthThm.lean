import Apimodel.RecSoundThm
/-! The recursion of the analysis is bounded by the number of types: the guard of a checker never holds a type twice, and holds only the type the call
started from and types that occur as children in the graph — so `RecursiveChecker.visit` is never nested deeper than `1 +` the number of child
occurrences of the graph, whatever the memo holds and whatever other checkers do to it. -/
namespace Api.Rec

theorem nodup_length_le : ∀ (l l' : List Node), l.Nodup → (∀ x ∈ l, x ∈ l') → l.length ≤ l'.length
  | [], _, _, _ => Nat.zero_le _
  | a :: t, l', hn, hs => by
    have ha : a ∈ l' := hs a (List.mem_cons_self ..)
    have hnt := (List.nodup_cons.1 hn)
    have hsub : ∀ x ∈ t, x ∈ l'.erase a := by
      intro x hx
      have hxa : x ≠ a := fun h => hnt.1 (h ▸ hx)
      exact (List.mem_erase_of_ne hxa).2 (hs x (List.mem_cons_of_mem _ hx))
    have ih := nodup_length_le t (l'.erase a) hnt.2 hsub
    have hl : (l'.erase a).length = l'.length - 1 := List.length_erase_of_mem ha
    have hpos : 0 < l'.length := List.length_pos_of_mem ha
    simp only [List.length_cons]
    omega

/-- the types a call started from `s` can ever hold on its guard -/
def typesOf (g : Graph) (s : Node) : List Node := s :: g.flatMap (·.2)

theorem child_in_universe (g : Graph) (s a b : Node) (h : Edge g a b) : b ∈ typesOf g s := by
  unfold Edge children at h
  split at h
  · rename_i k cs hf
    have hm := List.mem_of_find?_eq_some hf
    exact List.mem_cons_of_mem _ (List.mem_flatMap.2 ⟨(k, cs), hm, h⟩)
  · cases h

structure GInv (g : Graph) (s : Node) (l : Local) : Prop where
  nodup : (l.stack.map (·.node)).Nodup
  inU : ∀ x ∈ l.stack.map (·.node), x ∈ typesOf g s
  todoU : ∀ f ∈ l.stack, ∀ x ∈ f.todo, x ∈ typesOf g s
  startU : ∀ n, l.start = some n → n ∈ typesOf g s

theorem enter_ginv {g : Graph} {s : Node} {c : Cache} {l : Local} {n : Node} (h : GInv g s l) (hn : n ∈ typesOf g s)
    (hs : l.start = none) : GInv g s (enter g c l n) := by
  unfold enter
  split
  · exact h
  · simp only []
    split
    · exact { nodup := h.nodup, inU := h.inU, todoU := h.todoU, startU := h.startU }
    · rename_i hc
      have hnot : n ∉ l.stack.map (·.node) := by
        intro hm; apply hc; simpa using hm
      refine { nodup := ?_, inU := ?_, todoU := ?_, startU := ?_ }
      · show ((⟨n, children g n⟩ :: l.stack).map (·.node)).Nodup
        rw [List.map_cons]; exact List.nodup_cons.2 ⟨hnot, h.nodup⟩
      · intro x hx
        have hx' : x ∈ n :: l.stack.map (·.node) := by simpa using hx
        rcases List.mem_cons.1 hx' with rfl | hx''
        · exact hn
        · exact h.inU x hx''
      · intro f hf x hx
        rcases List.mem_cons.1 hf with rfl | hft
        · exact child_in_universe g s n x hx
        · exact h.todoU f hft x hx
      · intro m hm; rw [hs] at hm; cases hm

theorem step_ginv {g : Graph} {s : Node} {c : Cache} {l : Local} (h : GInv g s l) : GInv g s (step g c l).2 := by
  obtain ⟨stack, recOf, allRec, writes, start⟩ := l
  cases writes with
  | cons w ws =>
    obtain ⟨k, b⟩ := w
    exact { nodup := h.nodup, inU := h.inU, todoU := h.todoU, startU := h.startU }
  | nil =>
    cases start with
    | some n =>
      show GInv g s (enter g c ⟨stack, recOf, allRec, [], none⟩ n)
      refine enter_ginv ?_ (h.startU n rfl) rfl
      exact { nodup := h.nodup, inU := h.inU, todoU := h.todoU, startU := (fun m hm => by cases hm) }
    | none =>
      cases stack with
      | nil => exact h
      | cons f rest =>
        obtain ⟨n, todo⟩ := f
        have hrest_nodup : (rest.map (·.node)).Nodup := (List.nodup_cons.1 (by simpa using h.nodup)).2
        have hrest_inU : ∀ x ∈ rest.map (·.node), x ∈ typesOf g s := fun x hx => h.inU x (by simp at hx ⊢; exact Or.inr hx)
        have hrest_todo : ∀ f ∈ rest, ∀ x ∈ f.todo, x ∈ typesOf g s := fun f hf => h.todoU f (List.mem_cons_of_mem _ hf)
        cases todo with
        | nil =>
          show GInv g s (exitFix ⟨⟨n, []⟩ :: rest, recOf, allRec, [], none⟩ n rest)
          unfold exitFix
          split
          · split
            · exact { nodup := hrest_nodup, inU := hrest_inU, todoU := hrest_todo, startU := (fun m hm => by cases hm) }
            · exact { nodup := hrest_nodup, inU := hrest_inU, todoU := hrest_todo, startU := (fun m hm => by cases hm) }
          · exact { nodup := hrest_nodup, inU := hrest_inU, todoU := hrest_todo, startU := (fun m hm => by cases hm) }
        | cons ch todo' =>
          show GInv g s (enter g c ⟨⟨n, todo'⟩ :: rest, recOf, allRec, [], none⟩ ch)
          refine enter_ginv ?_ (h.todoU ⟨n, ch :: todo'⟩ (List.mem_cons_self ..) ch (List.mem_cons_self ..)) rfl
          refine { nodup := ?_, inU := ?_, todoU := ?_, startU := (fun m hm => by cases hm) }
          · have := h.nodup; simpa using this
          · intro x hx; exact h.inU x (by simpa using hx)
          · intro f hf x hx
            rcases List.mem_cons.1 hf with rfl | hft
            · exact h.todoU ⟨n, ch :: todo'⟩ (List.mem_cons_self ..) x (List.mem_cons_of_mem _ hx)
            · exact hrest_todo f hft x hx

theorem fresh_ginv (g : Graph) (s : Node) : GInv g s { start := some s } :=
  { nodup := List.nodup_nil, inU := (fun _ h => by cases h), todoU := (fun _ h => by cases h),
    startU := (fun n hn => by cases hn; exact List.mem_cons_self ..) }

/-- any number of steps of a call started from `s`, whatever memo each step sees (another checker may write between two steps) -/
def stepsWith (g : Graph) : List Cache → Local → Local
  | [], l => l
  | c :: cs, l => stepsWith g cs (step g c l).2

theorem stepsWith_ginv (g : Graph) (s : Node) : ∀ (cs : List Cache) (l : Local), GInv g s l → GInv g s (stepsWith g cs l)
  | [], _, h => h
  | c :: cs, l, h => stepsWith_ginv g s cs _ (step_ginv (c := c) h)

/-- **The recursion of the analysis is bounded (C03 / C20):** at every moment of a call started from `s` the guard — the nesting of
    `RecursiveChecker.visit` — holds at most `1 +` (number of child occurrences in the graph) types, none of them twice. -/
theorem analysis_depth_bounded (g : Graph) (s : Node) (cs : List Cache) :
    (stepsWith g cs { start := some s }).stack.length ≤ (typesOf g s).length ∧
    ((stepsWith g cs { start := some s }).stack.map (·.node)).Nodup := by
  have h := stepsWith_ginv g s cs _ (fresh_ginv g s)
  refine ⟨?_, h.nodup⟩
  have := nodup_length_le _ _ h.nodup h.inU
  simpa using this

end Api.Rec
