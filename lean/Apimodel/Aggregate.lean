/-! Attribution of the keys of a datum to the aggregate fields of a class (`ObjectMethod.deserialize`, the `if self.aggregate_fields:` branch).

After the declared fields, `remain = data.keys() - all_aliases`; every flattened field takes - from the *datum* - the keys among its own aliases and
removes them from `remain`; every pattern field, in declaration order, takes the keys of `remain` its pattern matches and removes them; the
additional-properties field takes what is left; without such a field what is left is unexpected.  Regular expressions are a parameter: a pattern is
its matching function on keys (the correspondence computes it with Python's `re`). -/
namespace Api.Agg

def sub (xs ys : List String) : List String := xs.filter (fun k => !ys.contains k)

/-- the flattened fields, in order: (keys each one takes, what remains) -/
def flatLoop (keys : List String) : List (List String) → List String → List (List String) × List String
  | [], remain => ([], remain)
  | fl :: fls, remain =>
    let got := fl.filter (fun a => keys.contains a)
    let r := flatLoop keys fls (sub remain got)
    (got :: r.1, r.2)

/-- the pattern fields, in order -/
def patLoop : List (String → Bool) → List String → List (List String) × List String
  | [], remain => ([], remain)
  | p :: ps, remain =>
    let r := patLoop ps (remain.filter (fun k => !p k))
    (remain.filter p :: r.1, r.2)

structure Spec where
  aliases : List String
  flattened : List (List String)
  additional : Bool

structure Attribution where
  flattened : List (List String)
  matched : List (List String)
  additional : Option (List String)
  unexpected : List String

def attrib (s : Spec) (pats : List (String → Bool)) (keys : List String) : Attribution :=
  let f := flatLoop keys s.flattened (sub keys s.aliases)
  let p := patLoop pats f.2
  { flattened := f.1, matched := p.1, additional := if s.additional then some p.2 else none, unexpected := if s.additional then [] else p.2 }

/-- the first pattern (least index) that matches a key -/
def firstIdx : List (String → Bool) → String → Option Nat
  | [], _ => none
  | p :: ps, k => if p k then some 0 else (firstIdx ps k).map (· + 1)

end Api.Agg
