import Apimodel.FieldsSetSrc
import Apimodel.Generated.FieldsSetSrc
/-! Source tie of `with_fields_set` (C15): the set expressions of `new_init` regenerated from the working tree evaluate to the model's
`afterInit`; the definitions the model takes as given (`params`, the classification of the dataclass fields, `__setattr__`, `set_fields`,
`unset_fields`) are pinned to the text the model was written against. -/
namespace Api
open SExpr

/-- the names of `new_init` as the model reads them: a freshly created instance (`new_new` stores an empty set) -/
def initEnv (c : FSClass) (nargs : Nat) (kwargs : List String) (prev : List String) : String → List String
  | "params[:len(args)]" => c.params.take nargs
  | "kwargs" => kwargs
  | "init_fields" => c.initVars
  | "post_init_fields" => c.postInit
  | "prev_fields_set" => prev
  | "arg_fields" => eval (fun s => match s with
                                    | "params[:len(args)]" => c.params.take nargs | "kwargs" => kwargs | "init_fields" => c.initVars | _ => [])
                      Generated.fs_initArgFields
  | _ => []

theorem fs_atoms_known :
    Generated.fs_initArgFields.atoms = ["params[:len(args)]", "kwargs", "init_fields"] ∧
    Generated.fs_initResult.atoms = ["prev_fields_set", "arg_fields", "post_init_fields"] := by decide

theorem mem_ofList {l : List String} {x : String} : x ∈ ofList l ↔ x ∈ l := by
  unfold ofList; rw [mem_union]; simp

/-- C15 (source tie): the state `new_init` stores is, as a set, the model's `afterInit` joined with what was set before the call
(nothing for a new instance) -/
theorem afterInit_matches_source (c : FSClass) (nargs : Nat) (kwargs prev : List String) (x : String) :
    x ∈ eval (initEnv c nargs kwargs prev) Generated.fs_initResult ↔ x ∈ prev ∨ x ∈ afterInit c nargs kwargs := by
  simp only [Generated.fs_initResult, Generated.fs_initArgFields, eval, initEnv, afterInit, mem_union, mem_diff, mem_ofList, List.mem_append]
  constructor
  · rintro ((h | h) | h)
    · exact Or.inl h
    · exact Or.inr (Or.inl ⟨h.1, h.2⟩)
    · exact Or.inr (Or.inr h)
  · rintro (h | h | h)
    · exact Or.inl (Or.inl h)
    · exact Or.inl (Or.inr ⟨h.1, h.2⟩)
    · exact Or.inr h

theorem afterInit_matches_source_fresh (c : FSClass) (nargs : Nat) (kwargs : List String) (x : String) :
    x ∈ eval (initEnv c nargs kwargs []) Generated.fs_initResult ↔ x ∈ afterInit c nargs kwargs := by
  rw [afterInit_matches_source]; simp

/-- the definitions the model takes as given are the ones it was written against -/
theorem fs_definitions_pinned :
    Generated.fs_paramsSrc = "list(signature(cls.__init__).parameters)[1:]" ∧
    Generated.fs_initPrevSrc = "self.__dict__.get(FIELDS_SET_ATTR, set()).copy()" ∧
    Generated.fs_initOrderSrc = "prev_fields_set ; self.__dict__[FIELDS_SET_ATTR] ; arg_fields ; self.__dict__[FIELDS_SET_ATTR]" ∧
    Generated.fs_classify = [((.atom "field._field_type == _FIELD_INITVAR"), "init_fields"),
      ((.and (.atom "field._field_type == _FIELD") (.not (.atom "field.init"))), "post_init_fields"),
      ((.atom "field.metadata.get(DEFAULT_AS_SET_METADATA)"), "post_init_fields")] ∧
    Generated.fs_setattrSrc = "try:\n    fields_set_ = self.__dict__[FIELDS_SET_ATTR]\nexcept KeyError:\n    raise RuntimeError(dataclass_before_error) from None\nold_setattr(self, attr, value)\nif attr != '__orig_class__':\n    fields_set_.add(attr)" ∧
    Generated.fs_setFieldsSrc = "if overwrite:\n    _fields_set(obj).clear()\n_fields_set(obj).update(map(get_field_name, fields))\nreturn obj" ∧
    Generated.fs_unsetFieldsSrc = "_fields_set(obj).difference_update(map(get_field_name, fields))\nreturn obj" ∧
    Generated.fs_fieldsSetSrc = "return _fields_set(obj)" := by
  refine ⟨?_, ?_, ?_, ?_, ?_, ?_, ?_, ?_⟩ <;> decide +kernel

end Api
