import Apimodel.Err
/-!
# C10: `validate()` — which validators run, in which order, and how their errors merge

A validator is data here: its dependency names, its `discard` names (after the rule "a field validator
without `discard=` discards its own field"), the alias it relocates its error under, and — the object
being fixed — whether it fails and with which error.  Bodies of validators are parameters.
-/
namespace Api.Validators

structure Vd where
  id : Nat
  deps : List String
  /-- empty = falsy = no discard -/
  discard : List String := []
  /-- `validator.field` alias: the error is wrapped as `{alias: err}` -/
  field : Option Key := none
  fails : Bool
  err : Err
  deriving Inhabited

def disjoint (a b : List String) : Bool := a.all (fun x => !b.contains x)

def Vd.raised (v : Vd) : Err :=
  match v.field with
  | some k => .mk [] [(k, v.err)]
  | none => v.err

def joinOpt (a : Option Err) (b : Option Err) : Option Err :=
  match b with
  | none => a
  | some e => some (mergeOpt a e)

structure Res where
  ran : List Nat
  err : Option Err
  deriving Inhabited

def Res.cons (i : Nat) (r : Res) : Res := { r with ran := i :: r.ran }

/-- `validate(obj, validators)` with the remainder taken *after* the failing validator (`validators[i+1:]`).
    `disc` accumulates the discarded names of the enclosing calls (the nested generator filters compose). -/
def validate (disc : List String) : List Vd → Option Err → Res
  | [], acc => ⟨[], acc⟩
  | v :: rest, acc =>
    if !disjoint v.deps disc then validate disc rest acc
    else if !v.fails then (validate disc rest acc).cons v.id
    else
      let acc' := some (mergeOpt acc v.raised)
      if v.discard.isEmpty then (validate disc rest acc').cons v.id
      else
        let inner := validate (disc ++ v.discard) rest none
        ⟨v.id :: inner.ran, joinOpt acc' inner.err⟩

/-- pinned tree: the remainder is `validators[i:]`, so a failing, discarding validator that does not
    depend on what it discards survives the filter and is run again, forever (`RecursionError`) -/
def loops (disc : List String) : List Vd → Bool
  | [] => false
  | v :: rest =>
    if !disjoint v.deps disc then loops disc rest
    else if !v.fails then loops disc rest
    else if v.discard.isEmpty then loops disc rest
    else disjoint v.deps v.discard || loops (disc ++ v.discard) rest

/-! ## specification: one left-to-right pass -/

structure Pass where
  disc : List String
  ran : List Nat
  errs : List Err

/-- a validator runs iff none of its dependencies has been discarded by an earlier failing validator -/
def passStep (p : Pass) (v : Vd) : Pass :=
  if !disjoint v.deps p.disc then p
  else if !v.fails then { p with ran := p.ran ++ [v.id] }
  else { disc := p.disc ++ v.discard, ran := p.ran ++ [v.id], errs := p.errs ++ [v.raised] }

def pass (disc : List String) (vs : List Vd) : Pass := vs.foldl passStep ⟨disc, [], []⟩

theorem foldl_passStep (vs : List Vd) : ∀ (p : Pass),
    vs.foldl passStep p
      = ⟨(pass p.disc vs).disc, p.ran ++ (pass p.disc vs).ran, p.errs ++ (pass p.disc vs).errs⟩ := by
  induction vs with
  | nil => intro p; simp [pass]
  | cons v vs ih =>
    intro p
    have hp : pass p.disc (v :: vs) = vs.foldl passStep (passStep ⟨p.disc, [], []⟩ v) := rfl
    rw [List.foldl, ih (passStep p v), hp, ih (passStep ⟨p.disc, [], []⟩ v)]
    by_cases h1 : disjoint v.deps p.disc <;> by_cases h2 : v.fails <;>
      simp [passStep, h1, h2, List.append_assoc]

theorem pass_cons (disc : List String) (v : Vd) (vs : List Vd) :
    pass disc (v :: vs)
      = ⟨(pass (passStep ⟨disc, [], []⟩ v).disc vs).disc,
         (passStep ⟨disc, [], []⟩ v).ran ++ (pass (passStep ⟨disc, [], []⟩ v).disc vs).ran,
         (passStep ⟨disc, [], []⟩ v).errs ++ (pass (passStep ⟨disc, [], []⟩ v).disc vs).errs⟩ := by
  have hp : pass disc (v :: vs) = vs.foldl passStep (passStep ⟨disc, [], []⟩ v) := rfl
  rw [hp, foldl_passStep]

/-- **C10 (who runs).** The validators executed, in order, are exactly those selected by the one-pass
    specification — for every list of validators, every outcome assignment, every discard structure. -/
theorem C10_ran : ∀ (vs : List Vd) (disc : List String) (acc : Option Err),
    (validate disc vs acc).ran = (pass disc vs).ran := by
  intro vs
  induction vs with
  | nil => intro disc acc; rfl
  | cons v vs ih =>
    intro disc acc
    rw [pass_cons, validate]
    by_cases h1 : disjoint v.deps disc
    · by_cases h2 : v.fails
      · by_cases h3 : v.discard.isEmpty
        · have : v.discard = [] := by simpa using h3
          simp [passStep, h1, h2, h3, Res.cons, ih, this]
        · simp [passStep, h1, h2, h3, ih]
      · simp [passStep, h1, h2, Res.cons, ih]
    · simp [passStep, h1, ih]

/-- the set of discarded names after the pass: union of the `discard`s of the failing validators that ran -/
def ShouldRun (disc : List String) (before : List Vd) (v : Vd) : Bool :=
  disjoint v.deps (pass disc before).disc

/-! ## no error ⇔ no executed validator failed -/

theorem joinOpt_isSome (a b : Option Err) : (joinOpt a b).isSome = (a.isSome || b.isSome) := by
  cases a <;> cases b <;> rfl

theorem C10_ok_iff : ∀ (vs : List Vd) (disc : List String) (acc : Option Err),
    (validate disc vs acc).err.isSome = (acc.isSome || !(pass disc vs).errs.isEmpty) := by
  intro vs
  induction vs with
  | nil => intro disc acc; simp [validate, pass]
  | cons v vs ih =>
    intro disc acc
    rw [pass_cons, validate]
    by_cases h1 : disjoint v.deps disc
    · by_cases h2 : v.fails
      · by_cases h3 : v.discard.isEmpty
        · simp [passStep, h1, h2, h3, Res.cons, ih]
        · simp [passStep, h1, h2, h3, joinOpt_isSome]
      · simp [passStep, h1, h2, Res.cons, ih]
    · simp [passStep, h1, ih]

/-! ## the object method's gate -/

/-- tail of `ObjectMethod.deserialize`: `provided` = names with a value, `invalid` = names whose field failed
    (or `__post_init__`-modified), `structural` = the error collected so far -/
def objValidate (vs : List Vd) (provided invalid : List String) (structural : Option Err) : Res :=
  let kept := vs.filter (fun v => !disjoint v.deps provided)
  match structural with
  | some e => -- validators whose inputs are all valid still run, on a mock object; nothing is constructed
      let r := validate [] (kept.filter (fun v => disjoint v.deps invalid)) none
      ⟨r.ran, joinOpt (some e) r.err⟩
  | none => validate [] kept none

theorem ran_sub : ∀ (vs : List Vd) (disc : List String) (i : Nat), i ∈ (pass disc vs).ran →
    ∃ v ∈ vs, v.id = i ∧ disjoint v.deps disc = true := by
  intro vs
  induction vs with
  | nil => intro disc i h; cases h
  | cons v vs ih =>
    intro disc i h
    rw [pass_cons] at h
    simp only [List.mem_append] at h
    by_cases h1 : disjoint v.deps disc
    · cases h with
      | inl h =>
        by_cases h2 : v.fails <;> simp [passStep, h1, h2] at h <;> exact ⟨v, List.mem_cons_self .., h.symm, h1⟩
      | inr h =>
        obtain ⟨w, hw, hid, hd⟩ := ih _ i h
        refine ⟨w, List.mem_cons_of_mem _ hw, hid, ?_⟩
        by_cases h2 : v.fails
        · simp only [passStep, h1, h2] at hd
          simp only [disjoint, List.all_eq_true] at hd ⊢
          intro x hx
          have := hd x hx
          simp only [Bool.not_eq_true', Bool.not_true, Bool.false_eq_true, if_false] at this ⊢
          rw [List.contains_eq_mem, decide_eq_false_iff_not] at this ⊢
          intro hm; exact this (List.mem_append_left _ hm)
        · simpa [passStep, h1, h2] using hd
    · cases h with
      | inl h => simp [passStep, h1] at h
      | inr h =>
        obtain ⟨w, hw, hid, hd⟩ := ih _ i h
        refine ⟨w, List.mem_cons_of_mem _ hw, hid, ?_⟩
        simpa [passStep, h1] using hd

/-- **C10 (gate).** A validator that runs during deserialization has at least one dependency provided and,
    when the structure is invalid, no dependency among the invalid fields. -/
theorem C10_gate (vs : List Vd) (provided invalid : List String) (st : Option Err) (i : Nat)
    (h : i ∈ (objValidate vs provided invalid st).ran) :
    ∃ v ∈ vs, v.id = i ∧ disjoint v.deps provided = false ∧
      (st.isSome = true → disjoint v.deps invalid = true) := by
  unfold objValidate at h
  cases st with
  | none =>
    simp only [C10_ran] at h
    obtain ⟨v, hv, hid, _⟩ := ran_sub _ _ _ h
    rw [List.mem_filter] at hv
    exact ⟨v, hv.1, hid, by simpa using hv.2, by intro h; cases h⟩
  | some e =>
    simp only [C10_ran] at h
    obtain ⟨v, hv, hid, _⟩ := ran_sub _ _ _ h
    rw [List.mem_filter, List.mem_filter] at hv
    exact ⟨v, hv.1.1, hid, by simpa using hv.1.2, fun _ => hv.2⟩

/-- an object is constructed iff the structure is valid; it is returned iff, in addition, no executed
    validator failed -/
theorem C10_result (vs : List Vd) (provided invalid : List String) (st : Option Err) :
    (objValidate vs provided invalid st).err.isSome
      = (st.isSome || !(pass [] (match st with
            | some _ => (vs.filter (fun v => !disjoint v.deps provided)).filter (fun v => disjoint v.deps invalid)
            | none => vs.filter (fun v => !disjoint v.deps provided))).errs.isEmpty) := by
  unfold objValidate
  cases st with
  | none => simp [C10_ok_iff]
  | some e => simp [joinOpt_isSome, C10_ok_iff]

/-! ## examples (non-vacuity; the documentation's password example shape) -/

def e (s : String) : Err := .mk [.custom s] []

def exVs : List Vd :=
  [ { id := 0, deps := ["a"], discard := ["a"], field := some (.name "a"), fails := true, err := e "bad a" },
    { id := 1, deps := ["a", "b"], fails := true, err := e "a/b" },
    { id := 2, deps := ["b"], fails := true, err := e "bad b" },
    { id := 3, deps := ["b"], fails := false, err := e "" } ]

example : (validate [] exVs none).ran = [0, 2, 3] := by decide
example : ShouldRun [] (exVs.take 1) exVs[1]! = false := by decide

end Api.Validators
