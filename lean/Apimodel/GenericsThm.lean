import Apimodel.Generics
import Apimodel.Generated.GenericsSrc
/-! Theorems on the specialisation of generic classes (C01 / C04 / C06: the fields of `X[args]` are those of the plain class obtained by substitution).

* `resolve_closed`: for a well-formed hierarchy and closed arguments (as many as parameters) every resolved field type is closed - no type variable
  reaches (de)serialization;
* `resolve_spec_fields`: the own fields of the specialised class are its declared fields under (parameters ↦ arguments), and the inherited ones are the
  resolution of the base with the substituted base arguments (the definition of the plain twin);
* `appearance_order_counterexample`: the defect of row 75 replayed - with `class B(A[U, T], Generic[T, U])`, the order of first appearance gives
  `B[int, str]` the fields of `A[int, str]`; `resolveChain` gives those of `A[str, int]`. -/
namespace Api.Generics

theorem lookupS_closed (σ : Subst) (v : String) (hσ : ∀ p ∈ σ, closed p.2 = true) (hv : (σ.map (·.1)).contains v = true) :
    closed (lookupS σ v) = true := by
  unfold lookupS
  cases h : σ.find? (fun p => p.1 == v) with
  | some p => exact hσ p (List.mem_of_find?_eq_some h)
  | none =>
    exfalso
    rw [List.find?_eq_none] at h
    simp only [List.contains_iff_mem, List.mem_map] at hv
    obtain ⟨p, hp, rfl⟩ := hv
    exact h p hp (by simp)

theorem subst_closed (σ : Subst) (hσ : ∀ p ∈ σ, closed p.2 = true) :
    (∀ t, within (σ.map (·.1)) t = true → closed (subst σ t) = true) ∧
    (∀ ts, withinL (σ.map (·.1)) ts = true → closedL (substL σ ts) = true) := by
  apply subst.mutual_induct (motive_1 := fun t => within (σ.map (·.1)) t = true → closed (subst σ t) = true)
    (motive_2 := fun ts => withinL (σ.map (·.1)) ts = true → closedL (substL σ ts) = true)
  · intro v h; rw [subst]; rw [within] at h; exact lookupS_closed σ v hσ h
  · intro c _; rw [subst, closed]
  · intro f as ih h; rw [subst, closed]; rw [within] at h; exact ih h
  · intro _; rw [substL, closedL]
  · intro t ts ih1 ih2 h
    rw [withinL, Bool.and_eq_true] at h
    rw [substL, closedL, ih1 h.1, ih2 h.2]; rfl

theorem zip_keys (ps : List String) (args : List GTy) (h : ps.length = args.length) : (ps.zip args).map (·.1) = ps := by
  induction ps generalizing args with
  | nil => simp
  | cons p ps ih =>
    cases args with
    | nil => simp at h
    | cons a as => simp only [List.zip_cons_cons, List.map_cons, List.cons.injEq, true_and]; exact ih as (by simpa using h)

theorem zip_closed (ps : List String) (args : List GTy) (hc : closedL args = true) : ∀ p ∈ ps.zip args, closed p.2 = true := by
  induction ps generalizing args with
  | nil => simp
  | cons p ps ih =>
    cases args with
    | nil => simp
    | cons a as =>
      rw [closedL, Bool.and_eq_true] at hc
      intro q hq
      simp only [List.zip_cons_cons, List.mem_cons] at hq
      rcases hq with rfl | hq
      · exact hc.1
      · exact ih as hc.2 q hq

theorem substL_length (σ : Subst) : ∀ ts, (substL σ ts).length = ts.length
  | [] => by rw [substL]
  | t :: ts => by rw [substL, List.length_cons, List.length_cons, substL_length σ ts]

/-- No type variable leaks: every field of a specialisation with closed arguments has a closed type. -/
theorem resolve_closed : ∀ (cs : List GClass) (args : List GTy), chainWf cs = true → closedL args = true →
    (∀ c, cs.head? = some c → c.params.length = args.length) → ∀ f ∈ resolveChain cs args, closed f.2 = true
  | [], _, _, _, _ => by intro f hf; simp [resolveChain] at hf
  | [c], args, hwf, hc, hl => by
    have hlen := hl c rfl
    intro f hf
    simp only [resolveChain, List.nil_append, substFields, List.mem_map] at hf
    obtain ⟨p, hp, rfl⟩ := hf
    have hw : c.wf = true := by simpa [chainWf] using hwf
    simp only [GClass.wf, Bool.and_eq_true, List.all_eq_true] at hw
    have := (subst_closed (c.params.zip args) (zip_closed _ _ hc)).1 p.2
    rw [zip_keys _ _ hlen] at this
    exact this (hw.2 p hp)
  | c :: d :: rest, args, hwf, hc, hl => by
    have hlen := hl c rfl
    simp only [chainWf, Bool.and_eq_true, beq_iff_eq] at hwf
    obtain ⟨⟨hw, hbl⟩, hrest⟩ := hwf
    simp only [GClass.wf, Bool.and_eq_true, List.all_eq_true] at hw
    have hS := subst_closed (c.params.zip args) (zip_closed _ _ hc)
    rw [zip_keys _ _ hlen] at hS
    intro f hf
    rw [resolveChain, List.mem_append] at hf
    rcases hf with hf | hf
    · refine resolve_closed (d :: rest) _ hrest (hS.2 _ hw.1) ?_ f hf
      intro c' hc'
      simp only [List.head?_cons, Option.some.injEq] at hc'
      subst hc'
      rw [substL_length]; exact hbl.symm
    · simp only [substFields, List.mem_map] at hf
      obtain ⟨p, hp, rfl⟩ := hf
      exact hS.1 p.2 (hw.2 p hp)

/-- The plain twin: own fields under (parameters ↦ arguments), after the base resolved with the substituted base arguments. -/
theorem resolve_spec_fields (c : GClass) (rest : List GClass) (args : List GTy) :
    resolveChain (c :: rest) args =
      resolveChain rest (substL (c.params.zip args) c.baseArgs) ++ c.fields.map (fun p => (p.1, subst (c.params.zip args) p.2)) := rfl

/-- the number and the names of the fields do not depend on the arguments -/
theorem resolve_names : ∀ (cs : List GClass) (args args' : List GTy),
    (resolveChain cs args).map (·.1) = (resolveChain cs args').map (·.1)
  | [], _, _ => rfl
  | c :: rest, args, args' => by
    simp only [resolveChain, List.map_append, substFields, List.map_map]
    rw [resolve_names rest _ (substL (c.params.zip args') c.baseArgs)]
    rfl

/-! ### the defect of row 75, replayed -/
def clsA : GClass := { name := "A", params := ["T", "U"], baseArgs := [], fields := [("a", .var "T"), ("b", .var "U")] }
/-- `class B(A[U, T], Generic[T, U]): c: T` -/
def clsB : GClass := { name := "B", params := ["T", "U"], baseArgs := [.var "U", .var "T"], fields := [("c", .var "T")] }

theorem chain_wf : chainWf [clsB, clsA] = true := by decide

/-- `B[int, str]`: `a: str, b: int, c: int` (the fields of `A[str, int]`); the order of first appearance (`U`, `T`) gave `a: int, b: str`. -/
theorem appearance_order_counterexample :
    renderFields (resolveChain [clsB, clsA] [.con "int", .con "str"]) = [("a", "str"), ("b", "int"), ("c", "int")] ∧
    paramsByAppearance clsB = ["U", "T"] ∧
    renderFields (resolveChainOld [clsB, clsA] [.con "int", .con "str"]) = [("a", "int"), ("b", "str"), ("c", "int")] := by
  decide +kernel

/-- when the order of appearance is the class's own order (no reordering `Generic[...]`), both computations agree -/
theorem old_eq_of_same_order : ∀ (cs : List GClass) (args : List GTy), (∀ c ∈ cs, paramsByAppearance c = c.params) →
    resolveChainOld cs args = resolveChain cs args
  | [], _, _ => rfl
  | c :: rest, args, h => by
    rw [resolveChainOld, resolveChain, h c (List.mem_cons_self ..)]
    rw [old_eq_of_same_order rest _ (fun d hd => h d (List.mem_cons_of_mem _ hd))]

/-- Source tie: both substitutions of the working tree - the one that specialises the bases (`_generic_mro`) and the one that specialises the fields
(`resolve_type_hints`) - zip the type arguments with the class's own `__parameters__`, as `resolveChain` does; the order of first appearance in the
bases is only the fallback for objects that have no `__parameters__`. -/
theorem substitutions_use_own_parameters :
    Generated.gen_mroZips = [["parameters", "get_args(tp)"]] ∧ Generated.gen_mroParamsDef = "getattr(origin, '__parameters__', None)" ∧
    Generated.gen_mroParamsAssignments = 2 ∧ Generated.gen_mroFallbackGuard = "parameters is None" ∧
    Generated.gen_hintsZips = [["getattr(base_origin, '__parameters__', ())", "get_args(base)"]] := by
  refine ⟨?_, ?_, rfl, ?_, ?_⟩ <;> decide +kernel

end Api.Generics
