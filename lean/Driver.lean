import Apimodel.Deser
import Apimodel.Ser
import Apimodel.SchemaSem
import Apimodel.Order
import Apimodel.FieldsSet
import Apimodel.Spec
import Apimodel.Validators
import Apimodel.SerSchema
import Apimodel.Refs
import Apimodel.Versions
import Apimodel.Generics
import Apimodel.Aggregate
import Apimodel.RecSeq
import Apimodel.MetaChain
import Apimodel.AcceptThm
import Apimodel.NoCrashThm
import Apimodel.ErrorsThm
import Apimodel.ImageThm
import Apimodel.NoCopyThm
import Apimodel.SchemaThm
import Apimodel.CoerceThm
import Apimodel.UnionThm
import Apimodel.AcceptUnionThm
import Lean.Data.Json
open Lean Api

/-! Line-protocol driver: one JSON request per line, one JSON reply per line. -/

abbrev P := Except String

def arr (j : Json) : P (Array Json) := j.getArr?
def str (j : Json) : P String := j.getStr?
def bool' (j : Json) : P Bool := j.getBool?
def nat' (j : Json) : P Nat := j.getNat?
def intS (j : Json) : P Int := do
  match (← str j).toInt? with | some i => pure i | none => throw "bad int"

def parseRat (s : String) : P Rat := do
  match s.splitOn "/" with
  | [p, q] => match p.toInt?, q.toNat? with
    | some p, some q => pure (mkRat p q)
    | _, _ => throw s!"bad rat {s}"
  | [p] => match p.toInt? with | some p => pure (p : Rat) | none => throw s!"bad rat {s}"
  | _ => throw s!"bad rat {s}"

def parseFlt (j : Json) : P Flt := do
  match ← str j with
  | "nan" => pure .nan | "inf" => pure .pinf | "-inf" => pure .ninf
  | s => pure (.fin (← parseRat s))

partial def parsePy (j : Json) : P Py := do
  let a ← arr j
  match ← str a[0]! with
  | "n" => pure .null
  | "b" => pure (.bool (← bool' a[1]!))
  | "i" => pure (.int (← intS a[1]!))
  | "f" => pure (.float (← parseFlt a[1]!))
  | "s" => pure (.str (← str a[1]!))
  | "l" => pure (.list (← (← arr a[1]!).toList.mapM parsePy))
  | "d" => do
      let kvs ← (← arr a[1]!).toList.mapM (fun kv => do
        let p ← arr kv; pure ((← str p[0]!), (← parsePy p[1]!)))
      pure (.dict kvs)
  | "dn" => do
      let kvs ← (← arr a[1]!).toList.mapM (fun kv => do
        let p ← arr kv; pure ((← parsePy p[0]!), (← parsePy p[1]!)))
      pure (.dictNS kvs)
  | "o" => pure (.other (← str a[1]!))
  | t => throw s!"bad py tag {t}"

def parseNum (j : Json) : P Num := do
  let a ← arr j
  match ← str a[0]! with
  | "i" => pure (.int (← intS a[1]!))
  | "f" => pure (.flt (← parseFlt a[1]!))
  | t => throw s!"bad num tag {t}"

def parseLit (j : Json) : P Lit := do
  let a ← arr j
  match ← str a[0]! with
  | "n" => pure .null
  | "b" => pure (.bool (← bool' a[1]!))
  | "i" => pure (.int (← intS a[1]!))
  | "f" => pure (.float (← parseFlt a[1]!))
  | "s" => pure (.str (← str a[1]!))
  | t => throw s!"bad lit tag {t}"

def optField {α} (j : Json) (k : String) (p : Json → P α) : P (Option α) :=
  match j.getObjVal? k with
  | .ok .null => pure none
  | .ok v => some <$> p v
  | .error _ => pure none

def parsePat (j : Json) : P Pat := do
  let a ← arr j
  match ← str a[0]! with
  | "prefix" => pure (.prefix_ (← str a[1]!))
  | "lower" => pure .lower
  | "anyOf" => pure (.anyOf (← (← arr a[1]!).toList.mapM str))
  | t => throw s!"bad pat {t}"

def parseConstraints (j : Json) : P Constraints := do
  pure {
    min := ← optField j "min" parseNum, max := ← optField j "max" parseNum,
    excMin := ← optField j "exc_min" parseNum, excMax := ← optField j "exc_max" parseNum,
    multOf := ← optField j "mult_of" parseNum,
    minLen := ← optField j "min_len" nat', maxLen := ← optField j "max_len" nat',
    pattern := ← optField j "pattern" parsePat,
    minItems := ← optField j "min_items" nat', maxItems := ← optField j "max_items" nat',
    unique := (← optField j "unique" bool').getD false,
    minProps := ← optField j "min_props" nat', maxProps := ← optField j "max_props" nat' }

partial def parseTy (j : Json) : P Ty := do
  let a ← arr j
  match ← str a[0]! with
  | "none" => pure .null | "bool" => pure .bool | "int" => pure .int | "float" => pure .float
  | "str" => pure .str | "any" => pure .any
  | "list" => pure (.list (← parseTy a[1]!))
  | "set" => pure (.set (← parseTy a[1]!))
  | "frozenset" => pure (.frozenset (← parseTy a[1]!))
  | "vtuple" => pure (.vtuple (← parseTy a[1]!))
  | "tuple" => pure (.tuple (← (← arr a[1]!).toList.mapM parseTy))
  | "mapping" => pure (.mapping (← parseTy a[1]!) (← parseTy a[2]!))
  | "union" => pure (.union (← (← arr a[1]!).toList.mapM parseTy))
  | "literal" => pure (.literal (← (← arr a[1]!).toList.mapM parseLit))
  | "enum" => do
      let ms ← (← arr a[2]!).toList.mapM (fun m => do
        let p ← arr m; pure ((← str p[0]!), (← parseLit p[1]!)))
      pure (.enum (← str a[1]!) ms)
  | "newtype" => pure (.newtype (← str a[1]!) (← parseTy a[2]!))
  | "ann" => pure (.ann (← parseConstraints a[1]!) (← parseTy a[2]!))
  | "obj" => do
      let cj := a[1]!
      let kind ← match ← str (← cj.getObjVal? "kind") with
        | "dataclass" => pure ObjKind.dataclass | "namedtuple" => pure ObjKind.namedTuple
        | "typeddict" => pure ObjKind.typedDict | k => throw s!"bad kind {k}"
      let ci : ClassInfo := { name := ← str (← cj.getObjVal? "name"), kind := kind,
                              raw := ← bool' (← cj.getObjVal? "raw") }
      let fs ← (← arr a[2]!).toList.mapM (fun f => do
        let p ← arr f
        let dflt ← match p[5]! with
          | .null => pure none
          | .str "list" => pure (some Dflt.emptyList)
          | .str "dict" => pure (some Dflt.emptyDict)
          | l => (fun x => some (Dflt.lit x)) <$> parseLit l
        let reqBy ← if p.size > 6 then (← arr p[6]!).toList.mapM str else pure []
        let info : FieldInfo := { name := ← str p[0]!, alias := ← str p[1]!,
                                  required := ← bool' p[2]!, fbod := ← bool' p[3]!, dflt := dflt, requiredBy := reqBy }
        pure (info, ← parseTy p[4]!))
      pure (.obj ci fs)
  | t => throw s!"bad ty tag {t}"

def parseOpts (j : Json) : P DOpts := do
  pure { additionalProperties := ← bool' (← j.getObjVal? "ap"),
         fallBackOnDefault := ← bool' (← j.getObjVal? "fbod"),
         noCopy := ← bool' (← j.getObjVal? "nc"),
         overrideCtor := ← bool' (← j.getObjVal? "octor"),
         coerce := ← bool' (← j.getObjVal? "coerce"),
         quirks := match j.getObjVal? "repaired" with
           | .ok (.bool true) => Quirks.repaired
           | _ => Quirks.current }

def parseJClass (j : Json) : P JClass := do
  match ← str j with
  | "null" => pure .null | "boolean" => pure .bool | "integer" => pure .int | "number" => pure .float
  | "string" => pure .str | "array" => pure .list | "object" => pure .dict
  | s => throw s!"bad class {s}"

partial def parseTyG (j : Json) : P Refs.TyG := do
  let a ← arr j
  match ← str a[0]! with
  | "leaf" => pure .leaf
  | "ref" => pure (.ref (← str a[1]!))
  | "node" => pure (.node (← (← arr a[1]!).toList.mapM parseTyG))
  | t => throw s!"bad tyg {t}"

def parseCEnv (j : Json) : P CoerceEnv := do
  let pairs (k : String) : P (List (Json × Json)) := do
    (← arr (← j.getObjVal? k)).toList.mapM (fun e => do let a ← arr e; pure (a[0]!, a[1]!))
  pure { intOf := ← (← pairs "int").mapM (fun (a, b) => do pure ((← str a), (← intS b))),
         floatOf := ← (← pairs "float").mapM (fun (a, b) => do pure ((← str a), (← parseFlt b))),
         reprOf := ← (← pairs "repr").mapM (fun (a, b) => do pure ((← parseFlt a), (← str b))),
         boolWords := ← (← pairs "words").mapM (fun (a, b) => do pure ((← str a), (← bool' b))),
         litTypes := ← (← pairs "lits").mapM (fun (a, b) => do
            pure ((← (← arr a).toList.mapM parseLit), (← (← arr b).toList.mapM parseJClass))) }

/-! encoders -/
def ratStr (q : Rat) : String := s!"{q.num}/{q.den}"
def fltJson : Flt → Json
  | .fin q => Json.str (ratStr q) | .nan => "nan" | .pinf => "inf" | .ninf => "-inf"
def numJson : Num → Json
  | .int i => Json.arr #["i", toString i]
  | .flt f => Json.arr #["f", fltJson f]
def litJson : Lit → Json
  | .null => Json.arr #["n"] | .bool b => Json.arr #["b", b] | .int i => Json.arr #["i", toString i]
  | .float f => Json.arr #["f", fltJson f] | .str s => Json.arr #["s", s]
def keyJson : Key → Json
  | .idx i => Json.num i
  | .name s => Json.str s
def clsJson (c : Option JClass) : Json := match c with | some c => Json.str c.jsonName | none => Json.null
def ruleJson : Rule → Json
  | .badType e f => Json.arr #["type", e.jsonName, clsJson f]
  | .missing => Json.arr #["missing"]
  | .missingRequiredBy rs => Json.arr #["missing_required_by", Json.arr (rs.map Json.str).toArray]
  | .unexpected => Json.arr #["unexpected"]
  | .minimum n => Json.arr #["minimum", numJson n] | .maximum n => Json.arr #["maximum", numJson n]
  | .exclusiveMinimum n => Json.arr #["exclusive_minimum", numJson n]
  | .exclusiveMaximum n => Json.arr #["exclusive_maximum", numJson n]
  | .multipleOf n => Json.arr #["multiple_of", numJson n]
  | .minLength n => Json.arr #["min_length", n] | .maxLength n => Json.arr #["max_length", n]
  | .pattern p => Json.arr #["pattern", p]
  | .minItems n => Json.arr #["min_items", n] | .maxItems n => Json.arr #["max_items", n]
  | .uniqueItems => Json.arr #["unique_items"]
  | .minProperties n => Json.arr #["min_properties", n] | .maxProperties n => Json.arr #["max_properties", n]
  | .oneOf vs => Json.arr #["one_of", Json.arr (vs.map litJson).toArray]
  | .custom m => Json.arr #["custom", m]

def errsJson (es : Errs) : Json :=
  Json.arr (es.map (fun pr => Json.arr #[Json.arr (pr.1.map keyJson).toArray, ruleJson pr.2])).toArray

partial def valJson : Val → Json
  | .null => Json.arr #["n"]
  | .bool b => Json.arr #["b", b]
  | .int i => Json.arr #["i", toString i]
  | .float f => Json.arr #["f", fltJson f]
  | .str s => Json.arr #["s", s]
  | .list xs => Json.arr #["l", Json.arr (xs.map valJson).toArray]
  | .tuple xs => Json.arr #["t", Json.arr (xs.map valJson).toArray]
  | .set xs => Json.arr #["set", Json.arr (xs.map valJson).toArray]
  | .frozenset xs => Json.arr #["fset", Json.arr (xs.map valJson).toArray]
  | .dict kvs => Json.arr #["d", Json.arr (kvs.map (fun kv => Json.arr #[valJson kv.1, valJson kv.2])).toArray]
  | .obj c fs => Json.arr #["obj", c, Json.arr (fs.map (fun kv => Json.arr #[Json.str kv.1, valJson kv.2])).toArray]
  | .ntuple c fs => Json.arr #["obj", c, Json.arr (fs.map (fun kv => Json.arr #[Json.str kv.1, valJson kv.2])).toArray]
  | .enumMember c m => Json.arr #["enum", c, m]
  | .other c => Json.arr #["o", c]

partial def pyJson : Py → Json
  | .null => Json.arr #["n"]
  | .bool b => Json.arr #["b", b]
  | .int i => Json.arr #["i", toString i]
  | .float f => Json.arr #["f", fltJson f]
  | .str s => Json.arr #["s", s]
  | .list xs => Json.arr #["l", Json.arr (xs.map pyJson).toArray]
  | .dict kvs => Json.arr #["d", Json.arr (kvs.map (fun kv => Json.arr #[Json.str kv.1, pyJson kv.2])).toArray]
  | .dictNS kvs => Json.arr #["dn", Json.arr (kvs.map (fun kv => Json.arr #[pyJson kv.1, pyJson kv.2])).toArray]
  | .other c => Json.arr #["o", c]

def outcomePyJson : Outcome Py → Json
  | .ok v => Json.mkObj [("ok", pyJson v)]
  | .invalid e => Json.mkObj [("invalid", errsJson e.flatten)]
  | .crash c => Json.mkObj [("crash", c)]

def parseSOpts (j : Json) : P SOpts := do
  pure { excludeNone := ← bool' (← j.getObjVal? "exclude_none"),
         excludeDefaults := ← bool' (← j.getObjVal? "exclude_defaults"),
         additionalProperties := ← bool' (← j.getObjVal? "ap") }

def parseOrd (j : Json) : P Ordering' := do
  let a ← arr j
  match ← str a[0]! with
  | "none" => pure .none
  | "value" => pure (.value (← intS a[1]!))
  | "after" => pure (.after (← str a[1]!))
  | "before" => pure (.before (← str a[1]!))
  | t => throw s!"bad ordering {t}"

partial def parseGTy (j : Json) : P Generics.GTy := do
  let a ← arr j
  match ← str a[0]! with
  | "v" => pure (.var (← str a[1]!))
  | "c" => pure (.con (← str a[1]!))
  | "app" => pure (.app (← str a[1]!) (← (← arr a[2]!).toList.mapM parseGTy))
  | t => throw s!"bad generic term {t}"

def parseGClass (j : Json) : P Generics.GClass := do
  pure { name := ← str (← j.getObjVal? "name"),
         params := ← (← arr (← j.getObjVal? "params")).toList.mapM str,
         baseArgs := ← (← arr (← j.getObjVal? "base_args")).toList.mapM parseGTy,
         fields := ← (← arr (← j.getObjVal? "fields")).toList.mapM (fun f => do
           let a ← arr f; pure ((← str a[0]!), (← parseGTy a[1]!))) }

def outcomeJson : Outcome Val → Json
  | .ok v => Json.mkObj [("ok", valJson v)]
  | .invalid e => Json.mkObj [("invalid", errsJson e.flatten), ("mixed", mixedKeys e.children)]
  | .crash c => Json.mkObj [("crash", c)]

def handle (line : String) : String :=
  match Json.parse line with
  | .error e => (Json.mkObj [("error", s!"parse: {e}")]).compress
  | .ok j =>
    let r : P Json := do
      let id ← j.getObjVal? "id"
      match ← str (← j.getObjVal? "op") with
      | "deser" => do
          let o ← parseOpts (← j.getObjVal? "opts")
          let cs ← match j.getObjVal? "schema" with
            | .ok v => parseConstraints v | .error _ => pure {}
          let ty ← parseTy (← j.getObjVal? "ty")
          let d ← parsePy (← j.getObjVal? "d")
          match j.getObjVal? "cenv" with
          | .ok ce => do
              let env ← parseCEnv ce
              pure (Json.mkObj [("id", id), ("model", outcomeJson (deserializeC o env cs ty d)),
                                ("strict", outcomeJson (deserialize o cs ty d))])
          | .error _ =>
          let inE := ty.efrag && ty.acc && ty.nouq && d.json
          pure (Json.mkObj [("id", id), ("model", outcomeJson (deserialize o cs ty d)),
                            ("conforms", conforms o.additionalProperties o.fallBackOnDefault cs ty d),
                            ("scope", Json.mkObj [("acc", ty.acc), ("accu", ty.accU), ("good", d.good), ("nouq", ty.nouq), ("efrag", ty.efrag),
                               ("scope", ty.scope), ("sch", ty.sch), ("cfrag", ty.cfrag), ("nofloat", ty.noFloat),
                               ("json", d.json), ("jsonx", d.jsonX), ("wf", d.wf), ("sane", d.sane)]),
                            ("violations", if inE then errsJson (violations cs ty d) else Json.null),
                            ("image", if ty.efrag && ty.scope then valJson (image ty d) else Json.null)])
      | "roundtrip" => do
          let o ← parseOpts (← j.getObjVal? "opts")
          let so ← parseSOpts (← j.getObjVal? "sopts")
          let ty ← parseTy (← j.getObjVal? "ty")
          let d ← parsePy (← j.getObjVal? "d")
          let r := deserialize o {} ty d
          let s := match r with
            | .ok v => outcomePyJson (serialize so ty v)
            | _ => Json.null
          pure (Json.mkObj [("id", id), ("model", outcomeJson r), ("ser", s)])
      | "schema" => do
          let ap ← bool' (← j.getObjVal? "ap")
          let ty ← parseTy (← j.getObjVal? "ty")
          let sch ← match j.getObjVal? "so" with
            | .ok sj => do pure (buildS (← parseSOpts sj) ap ty)
            | .error _ => pure (buildD ap ty)
          let ds ← (← arr (← j.getObjVal? "data")).toList.mapM parsePy
          pure (Json.mkObj [("id", id), ("schema", pyJson sch.toPy),
                            ("valid", Json.arr (ds.map (fun d => Json.bool (validates sch d))).toArray)])
      | "schema07" => do
          let ap ← bool' (← j.getObjVal? "ap")
          let keeps ← bool' (← j.getObjVal? "keeps_prefix_items")
          let ty ← parseTy (← j.getObjVal? "ty")
          let s07 := to07 { keepsPrefixItems := keeps } (buildD ap ty)
          let ds ← (← arr (← j.getObjVal? "data")).toList.mapM parsePy
          pure (Json.mkObj [("id", id), ("schema", pyJson s07.toPy),
                            ("valid", Json.arr (ds.map (fun d => Json.bool (v07 s07 d))).toArray)])
      | "order" => do
          let elts ← (← arr (← j.getObjVal? "elts")).toList.mapM (fun e => do
            let p ← arr e; pure ({ name := ← str p[0]!, ord := ← parseOrd p[1]! } : Elt))
          let ov ← (← arr (← j.getObjVal? "overriding")).toList.mapM (fun e => do
            let p ← arr e; pure ((← str p[0]!), (← parseOrd p[1]!)))
          let es := elts.map (effective ov)
          pure (Json.mkObj [("id", id), ("order", Json.arr ((sortByOrder es).map (fun e => Json.str e.name)).toArray),
                            ("anchored", anchored es)])
      | "fieldsset" => do
          let cj ← j.getObjVal? "cls"
          let strs (k : String) : P (List String) := do (← arr (← cj.getObjVal? k)).toList.mapM str
          let c : FSClass := { params := ← strs "params", initVars := ← strs "init_vars",
                               initVarsWithDefault := ← strs "init_vars_default", postInit := ← strs "post_init" }
          let ops ← (← arr (← j.getObjVal? "ops")).toList.mapM (fun oj => do
            let a ← arr oj
            match ← str a[0]! with
            | "construct" => pure (FSOp.construct (← nat' a[1]!) (← (← arr a[2]!).toList.mapM str))
            | "setattr" => pure (FSOp.setattr (← str a[1]!))
            | "set_fields" => pure (FSOp.setFields (← (← arr a[1]!).toList.mapM str) (← bool' a[2]!))
            | "unset_fields" => pure (FSOp.unsetFields (← (← arr a[1]!).toList.mapM str))
            | "replace" => pure (FSOp.replace (← (← arr a[1]!).toList.mapM str))
            | t => throw s!"bad fs op {t}")
          -- states after each operation
          let states := (ops.foldl (fun (acc : FSet × List FSet) op =>
            let s' := step c acc.1 op; (s', acc.2 ++ [s'])) ([], [])).2
          pure (Json.mkObj [("id", id), ("states", Json.arr (states.map (fun s => Json.arr (s.map Json.str).toArray)).toArray)])
      | "validate" => do
          let vs ← (← arr (← j.getObjVal? "vs")).toList.mapM (fun vj => do
            let a ← arr vj
            let fld ← match a[3]! with
              | Json.null => pure Option.none
              | f => do pure (some (Key.name (← str f)))
            pure ({ id := ← nat' a[0]!, deps := ← (← arr a[1]!).toList.mapM str,
                    discard := ← (← arr a[2]!).toList.mapM str, field := fld,
                    fails := ← bool' a[4]!, err := .mk [.custom (← str a[5]!)] [] } : Validators.Vd))
          let current ← bool' (← j.getObjVal? "current")
          if current && Validators.loops [] vs then
            pure (Json.mkObj [("id", id), ("crash", "RecursionError")])
          else
            let r := Validators.validate [] vs Option.none
            pure (Json.mkObj [("id", id), ("ran", Json.arr (r.ran.map (fun (n : Nat) => (n : Json))).toArray),
                              ("errs", match r.err with
                                 | some e => errsJson e.flatten | Option.none => Json.null)])
      | "refs" => do
          let env ← (← arr (← j.getObjVal? "env")).toList.mapM (fun e => do
            let a ← arr e; pure ((← str a[0]!), (← parseTyG a[1]!)))
          let root ← parseTyG (← j.getObjVal? "root")
          let allRefs ← bool' (← j.getObjVal? "all_refs")
          let out := Refs.schema env root allRefs
          let refsJ (o : Option Refs.SchG) : Json := match o with
            | some s => Json.arr ((Refs.refsOf s).map Json.str).toArray
            | Option.none => Json.null
          pure (Json.mkObj [("id", id), ("main", refsJ out.main),
                            ("defs", Json.arr (out.defs.map (fun p => Json.arr #[Json.str p.1, refsJ p.2])).toArray),
                            ("counts", Json.arr ((Refs.extract env root).map (fun p => Json.arr #[Json.str p.1, (p.2 : Nat)])).toArray)])
      | "generic" => do
          let chain ← (← arr (← j.getObjVal? "chain")).toList.mapM parseGClass
          let args ← (← arr (← j.getObjVal? "args")).toList.mapM parseGTy
          let fj (fs : List (String × String)) : Json := Json.arr (fs.map (fun p => Json.arr #[Json.str p.1, Json.str p.2])).toArray
          let res := Generics.resolveChain chain args
          pure (Json.mkObj [("id", id), ("fields", fj (Generics.renderFields (Generics.resolveHints chain args))),
                            ("first_wins", fj (Generics.renderFields (Generics.hintsOfFirstWins res))),
                            ("appearance_order", fj (Generics.renderFields (Generics.resolveChainOld chain args))),
                            ("wf", Generics.chainWf chain), ("closed", res.all (fun p => Generics.closed p.2))])
      | "aggattr" => do
          let strs (x : Json) : P (List String) := do (← arr x).toList.mapM str
          let spec : Agg.Spec := { aliases := ← strs (← j.getObjVal? "aliases"),
                                   flattened := ← (← arr (← j.getObjVal? "flattened")).toList.mapM strs,
                                   additional := ← bool' (← j.getObjVal? "additional") }
          -- a pattern is given by the keys of the datum it matches (computed by Python's `re`)
          let pats ← (← arr (← j.getObjVal? "patterns")).toList.mapM strs
          let keys ← strs (← j.getObjVal? "keys")
          let a := Agg.attrib spec (pats.map (fun ms => fun k => ms.contains k)) keys
          let ll (xs : List (List String)) : Json := Json.arr (xs.map (fun g => Json.arr (g.map Json.str).toArray)).toArray
          pure (Json.mkObj [("id", id), ("flattened", ll a.flattened), ("matched", ll a.matched),
                            ("additional", match a.additional with | some g => Json.arr (g.map Json.str).toArray | Option.none => Json.null),
                            ("unexpected", Json.arr (a.unexpected.map Json.str).toArray)])
      | "metachain" => do
          let pairs (x : Json) : P (List (String × String)) := do (← arr x).toList.mapM (fun p => do let a ← arr p; pure ((← str a[0]!), (← str a[1]!)))
          let fm ← pairs (← j.getObjVal? "field")
          let annos ← (← arr (← j.getObjVal? "annos")).toList.mapM pairs
          let key ← str (← j.getObjVal? "key")
          pure (Json.mkObj [("id", id), ("value", match Meta.fullMetadata fm annos key with | some v => Json.str v | Option.none => Json.null)])
      | "rec" => do
          let g ← (← arr (← j.getObjVal? "graph")).toList.mapM (fun e => do
            let a ← arr e; pure ((← nat' a[0]!), (← (← arr a[1]!).toList.mapM nat')))
          let starts ← (← arr (← j.getObjVal? "starts")).toList.mapM nat'
          let fuel ← nat' (← j.getObjVal? "fuel")
          let cj (c : Rec.Cache) : Json := Json.arr (c.map (fun p => Json.arr #[(p.1 : Nat), Json.bool p.2])).toArray
          -- the consumer: after each call of the history, is the method of that type compiled within the bound (2 |g| + 10 nested visits)?
          let comp ← match j.getObjVal? "compile" with
            | .ok (Json.bool true) => pure true
            | _ => pure false
          let objs ← match j.getObjVal? "objects" with
            | .ok o => do pure (some (← (← arr o).toList.mapM nat'))
            | _ => pure Option.none
          let compiled (st : Rec.Graph → Rec.Cache → Rec.Local → Rec.Cache × Rec.Local) : Json :=
            if comp then
              Json.arr ((starts.foldl (fun (acc : Rec.Cache × List Json) n =>
                let c' := Rec.analyseSeq st g fuel acc.1 n
                (c', acc.2 ++ [Json.bool (match objs with
                  | some os => (Rec.compileF g os c' (3 * g.length + 10) [] true n).isSome
                  | Option.none => (Rec.compileDepth g c' (2 * g.length + 10) [] n).isSome)])) ([], [])).2).toArray
            else Json.null
          pure (Json.mkObj [("id", id), ("fixed", cj (Rec.history Rec.step g fuel starts)),
                            ("early", cj (Rec.history Rec.stepEarly g fuel starts)),
                            ("compiled_fixed", compiled Rec.step), ("compiled_early", compiled Rec.stepEarly),
                            ("on_cycle", Json.arr (((g.map (·.1)).filter (Rec.onCycleB g)).map (fun (n : Nat) => (n : Json))).toArray)])
      | op => throw s!"unknown op {op}"
    match r with
    | .ok j => j.compress
    | .error e => (Json.mkObj [("error", e)]).compress

partial def loop (i o : IO.FS.Stream) : IO Unit := do
  let line ← i.getLine
  if line.isEmpty then return ()
  o.putStrLn (handle line)
  loop i o

def main : IO Unit := do loop (← IO.getStdin) (← IO.getStdout)
