#!/usr/bin/env python3
"""check.py <property> [--tier quick|thorough] [--replay FILE]

Protocol (per property):
  1. bootstrap (idempotent, under a lock): python deps into ROOT/.deps, `lake build` of library + driver;
  2. proof side: build the property's theorem modules, audit `#print axioms` of every registered theorem
     (obligation discharged = present in the build, no `sorry`, axioms within the allowed set);
  3. tie: correspondence K (model = real code on generated cases) and property check P on the real code;
  4. verdict: a K/P failure is a VIOLATION with the failing case as replay unless it is a *known finding*
     (the finding's predicate holds on the case AND the real code still matches the model there);
     a broken proof obligation triggers a deeper failing-input search (10x budget); if nothing is found
     the VIOLATION line ends with `no-failing-input-found` and the replay names the obligation;
  5. evidence/<id>.json is rewritten and validated against EVIDENCE.schema.json.
Exit codes: 0 held, 1 violation, 2 infrastructure problem / timeout (never a verdict)."""
import sys, os, json, time, subprocess, fcntl, re, importlib, argparse, random, collections

ROOT = os.path.dirname(os.path.dirname(os.path.abspath(__file__)))
LEAN = ROOT                                   # lake project root (ROOT/lean in the final layout)
REPO = os.environ.get("VERIF_REPO", "/repo")
DEPS = os.path.join(ROOT, ".deps")
ALLOWED_AXIOMS = {"propext", "Classical.choice", "Quot.sound"}
SCHEMA = "/root/.vp/EVIDENCE.schema.json"

# property -> theorem modules and the theorems that constitute its proof obligations
REGISTRY = {
    "C16": {
        "modules": ["Apimodel.OrderThm"],
        "theorems": ["Api.sortByOrder_nodup", "Api.sortByOrder_sub", "Api.sortByOrder_perm",
                     "Api.C16_loses_counterexample"],
        "engine": "engine_order",
        # the Lean function compared with the real code *is* the statement's order (executable specification):
        # a disagreement is a failure of the property itself, not only of the tie
        "model_is_spec": True,
        "partial": "sortByOrder_perm holds under `anchored` (finding 17: dangling / cyclic after/before drop fields)",
    },
}

def sh(cmd, **kw):
    return subprocess.run(cmd, shell=isinstance(cmd, str), capture_output=True, text=True, **kw)

def bootstrap():
    os.makedirs(os.path.join(ROOT, "evidence"), exist_ok=True)
    with open(os.path.join(ROOT, ".bootstrap.lock"), "w") as lock:
        fcntl.flock(lock, fcntl.LOCK_EX)
        if not os.path.isdir(os.path.join(DEPS, "jsonschema")):
            r = sh(f"/venv/bin/pip install -q --no-index --find-links /opt/veriftools/wheels --target {DEPS} jsonschema")
            if r.returncode: print(r.stderr[-2000:]); sys.exit(2)
        r = sh("lake build driver", cwd=LEAN)
        if r.returncode:
            return False, r.stdout[-3000:] + r.stderr[-1000:]
    return True, ""

def audit(prop):
    """build the theorem modules and print the axioms of every registered theorem"""
    reg = REGISTRY[prop]
    obligations = [{"theorem": t, "discharged": False, "axioms": None, "why": ""} for t in reg["theorems"]]
    r = sh(["lake", "build"] + reg["modules"], cwd=LEAN)
    build_ok = r.returncode == 0
    log = r.stdout[-3000:]
    src_flags = sh(r"grep -rnE '\bsorry\b|\badmit\b|native_decide|^axiom |implemented_by|maxHeartbeats 0' Apimodel --include=*.lean | grep -v '^\S*:\s*--' || true", cwd=LEAN).stdout.strip()
    audit_file = os.path.join(LEAN, f".audit_{prop}.lean")
    with open(audit_file, "w") as f:
        f.write("".join(f"import {m}\n" for m in reg["modules"]))
        f.write("".join(f"#print axioms {t}\n" for t in reg["theorems"]))
    r = sh(["lake", "env", "lean", audit_file], cwd=LEAN)
    os.remove(audit_file)
    out = r.stdout + r.stderr
    for ob in obligations:
        m = re.search(r"'%s' depends on axioms: \[([^\]]*)\]" % re.escape(ob["theorem"]), out.replace("\n", " "))
        m0 = re.search(r"'%s' does not depend on any axioms" % re.escape(ob["theorem"]), out)
        if m or m0:
            axs = [a.strip() for a in m.group(1).split(",")] if m else []
            ob["axioms"] = axs
            bad = [a for a in axs if a not in ALLOWED_AXIOMS]
            if bad: ob["why"] = "inadmissible axioms: " + ", ".join(bad)
            else: ob["discharged"] = True
        else:
            ob["why"] = "theorem missing from the build" if build_ok else "module does not build"
    return obligations, build_ok, log, src_flags

def write_evidence(prop, tier, seed, t0, obligations, stats, assumptions, violations):
    reg = REGISTRY[prop]
    ev = {"property_id": prop, "tier": tier, "seed": seed, "level": "proof", "wall_s": round(time.time() - t0, 2),
          "violations": violations,
          "coverage": {
              "obligations": len(obligations), "discharged": sum(o["discharged"] for o in obligations),
              "checker_cmd": "lake build " + " ".join(reg["modules"]) + " && #print axioms (audit)" +
                             (" && lake env leanchecker" if tier == "thorough" else ""),
              "trusted_base": ["Lean 4.33.0 kernel", "axioms: " + ", ".join(sorted(ALLOWED_AXIOMS)),
                               "hand-written model tied by the correspondence below", "CPython, typing, dataclasses"],
              "theorems": obligations, "partial": reg.get("partial", ""),
              "evaluations": stats.get("evaluations", 0), "distinct_nontrivial": stats.get("distinct_nontrivial", 0),
              "rule": stats.get("rule", ""), "samples": stats.get("samples", []),
              "histograms": stats.get("histograms", {}), "known_findings_seen": stats.get("known", {}),
          },
          "assumptions": assumptions}
    path = os.path.join(ROOT, "evidence", f"{prop}.json")
    with open(path, "w") as f: json.dump(ev, f, indent=1)
    sys.path.insert(0, DEPS)
    import jsonschema
    jsonschema.validate(ev, json.load(open(SCHEMA)))
    return path

def main():
    ap = argparse.ArgumentParser(); ap.add_argument("prop"); ap.add_argument("--tier", default=os.environ.get("VERIF_TIER", "quick"))
    ap.add_argument("--replay"); a = ap.parse_args()
    prop, tier = a.prop, a.tier; seed = int(os.environ.get("VERIF_SEED", "0")); t0 = time.time()
    reg = REGISTRY[prop]
    ok, log = bootstrap()
    sys.path.insert(0, os.path.join(ROOT, "harness")); sys.path.insert(0, REPO)
    engine = importlib.import_module(reg["engine"])
    if a.replay:
        res = engine.replay(json.load(open(a.replay))); print(json.dumps(res, indent=1)); sys.exit(1 if res.get("fails") else 0)
    obligations, build_ok, blog, flags = audit(prop) if ok else ([{"theorem": t, "discharged": False, "axioms": None,
                                                                  "why": "driver does not build"} for t in reg["theorems"]], False, log, "")
    broken = [o for o in obligations if not o["discharged"]] or ([{"theorem": "<source audit>", "why": flags}] if flags else [])
    budget = {"quick": 1, "thorough": 10}[tier] * (10 if broken else 1)
    known = json.load(open(os.path.join(ROOT, "known_findings.json")))
    stats = engine.run(seed, budget, driver_ok=ok)
    violations = []
    for case in stats.pop("failures"):
        kf = next((k for k in known["findings"] if k["property"] == prop and k["status"] == "open"
                   and engine.is_known(k["id"], case)), None)
        if kf: stats.setdefault("known", collections.Counter())[kf["id"]] += 1
        else: violations.append(case)
    for k, n in stats.get("known", {}).items():
        print(f"KNOWN-FINDING: property={prop} {k}: {next(f['what'] for f in known['findings'] if f['id'] == k)} ({n} cases this run)")
    os.makedirs(os.path.join(ROOT, "replays"), exist_ok=True)
    rc = 0
    if not reg.get("model_is_spec"):
        # a correspondence (K) failure alone is not a violation of the property: only P failures are replays;
        # K failures make the tie broken, which is reported like a broken obligation after the deeper search
        k_only = [c for c in violations if c.get("kind") == "K"]
        violations = [c for c in violations if c.get("kind") != "K"]
        if k_only and not violations:
            broken = broken + [{"theorem": "<correspondence>", "why": f"{len(k_only)} model/implementation disagreements",
                                "first": min(k_only, key=lambda c: len(json.dumps(c)))}]
    if violations:
        v = min(violations, key=lambda c: len(json.dumps(c)))       # smallest failing case as the replay
        path = os.path.join(ROOT, "replays", f"{prop}_{seed}.json"); json.dump(v, open(path, "w"), indent=1)
        print(f"VIOLATION property={prop} replay={path}"); rc = 1
    elif broken:
        path = os.path.join(ROOT, "replays", f"{prop}_{seed}_obligation.json")
        json.dump({"broken_obligations": broken, "build_log": blog[-1500:], "searched_cases": stats["evaluations"]}, open(path, "w"), indent=1)
        print(f"VIOLATION property={prop} replay={path} no-failing-input-found"); rc = 1
    if tier == "thorough" and not broken:
        r = sh(["lake", "env", "leanchecker"] + reg["modules"], cwd=LEAN)
        if r.returncode: print("leanchecker:", r.stdout[-500:], r.stderr[-500:]); sys.exit(2)
    ev = write_evidence(prop, tier, seed, t0, obligations, stats,
                        ["the model of sort_by_order is hand-written; tied by comparing key orders of serialize and both schemas"],
                        len(violations))
    print(f"{prop} {tier} seed={seed}: obligations {sum(o['discharged'] for o in obligations)}/{len(obligations)}, "
          f"{stats['evaluations']} cases, {stats['distinct_nontrivial']} distinct non-trivial, evidence {ev}, exit {rc}")
    sys.exit(rc)

if __name__ == "__main__":
    main()
