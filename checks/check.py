#!/usr/bin/env python3
"""check.py <property> [--tier quick|thorough] [--replay FILE]

Protocol (per property, DESIGN.md section 2.3):
  1. bootstrap (idempotent, under a file lock): python deps into /verif/.deps, regenerate
     lean/Apimodel/Generated/*.lean from /repo's working tree (translator), `lake build` of library + driver;
  2. proof side: the property's theorem modules are part of the build; `#print axioms` of every registered
     theorem is audited (obligation discharged = present in the build, sources free of sorry / native_decide /
     axiom, axioms within {propext, Classical.choice, Quot.sound});
  3. tie: correspondence K (model = real code on generated cases) and property check P on the real code;
  4. verdict: a P failure is a VIOLATION with the failing case as replay unless it is a *known finding*
     (the finding's predicate holds on the case AND the real code still matches the model there);
     a broken proof obligation or a broken correspondence triggers a deeper failing-input search; if nothing
     is found the VIOLATION line ends with `no-failing-input-found` and the replay names what no longer checks;
  5. evidence/<id>.json is rewritten and validated against EVIDENCE.schema.json.
Exit codes: 0 held, 1 violation, 2 infrastructure problem / timeout (never a verdict)."""
import sys, os, json, time, subprocess, fcntl, re, importlib, argparse, collections, hashlib, signal, traceback

ROOT = os.path.dirname(os.path.dirname(os.path.abspath(__file__)))
LEAN = os.path.join(ROOT, "lean")
REPO = os.environ.get("VERIF_REPO", "/repo")
DEPS = os.path.join(ROOT, ".deps")
ALLOWED_AXIOMS = {"propext", "Classical.choice", "Quot.sound"}
SCHEMA = "/root/.vp/EVIDENCE.schema.json"
PY = "/venv/bin/python"

sys.path.insert(0, os.path.join(ROOT, "checks"))
from registry import REGISTRY          # noqa: E402


def sh(cmd, **kw):
    return subprocess.run(cmd, shell=isinstance(cmd, str), capture_output=True, text=True, **kw)


def bootstrap():
    """deps + translator + build; returns (ok, log)"""
    os.makedirs(os.path.join(ROOT, "evidence"), exist_ok=True)
    os.makedirs(os.path.join(ROOT, "replays"), exist_ok=True)
    with open(os.path.join(ROOT, ".bootstrap.lock"), "w") as lock:
        fcntl.flock(lock, fcntl.LOCK_EX)
        if not os.path.isdir(os.path.join(DEPS, "jsonschema")):
            r = sh(f"{PY} -m pip install -q --no-index --find-links /opt/veriftools/wheels --target {DEPS} jsonschema")
            if r.returncode:
                print(r.stdout[-1000:], r.stderr[-2000:]); sys.exit(2)
        gen_log = ""
        r = sh([PY, os.path.join(ROOT, "tools", "extract.py"), REPO, os.path.join(LEAN, "Apimodel", "Generated")])
        if r.returncode:
            gen_log = "translator failed: " + r.stdout[-1500:] + r.stderr[-1500:]
        r = sh("lake build Apimodel driver", cwd=LEAN)
        if r.returncode:
            # the driver may still build even if a theorem module does not
            r2 = sh("lake build driver", cwd=LEAN)
            return r2.returncode == 0, False, gen_log + r.stdout[-4000:] + r.stderr[-1000:]
    return True, True, gen_log


def audit(prop, lib_ok):
    """axioms of every registered theorem (each obligation is checked in its own module build so that one
    broken module does not hide the others)"""
    reg = REGISTRY[prop]
    obligations = [{"theorem": t, "module": m, "discharged": False, "axioms": None, "why": ""} for m, t in reg["theorems"]]
    modules = sorted({m for m, _ in reg["theorems"]})
    log = ""
    built = {}
    for m in modules:
        if lib_ok:
            built[m] = True
        else:
            r = sh(["lake", "build", m], cwd=LEAN)
            built[m] = r.returncode == 0
            if r.returncode: log += r.stdout[-2500:] + r.stderr[-500:]
    flags = sh(r"grep -rnE '\bsorry\b|\badmit\b|native_decide|bv_decide|^axiom |implemented_by|unsafe |maxHeartbeats 0' Apimodel --include=*.lean"
               r" | grep -vE '^[^:]*:[0-9]+:\s*(--|/-)' || true", cwd=LEAN).stdout.strip()
    ok_modules = [m for m in modules if built[m]]
    out = ""
    if ok_modules:
        audit_file = os.path.join(LEAN, f".audit_{prop}_{os.getpid()}.lean")
        with open(audit_file, "w") as f:
            f.write("".join(f"import {m}\n" for m in ok_modules))
            f.write("".join(f"#print axioms {t}\n" for m, t in reg["theorems"] if built[m]))
        r = sh(["lake", "env", "lean", audit_file], cwd=LEAN)
        os.remove(audit_file)
        out = (r.stdout + r.stderr).replace("\n", " ")
    for ob in obligations:
        if not built[ob["module"]]:
            ob["why"] = "module does not build"; continue
        m = re.search(r"'%s' depends on axioms: \[([^\]]*)\]" % re.escape(ob["theorem"]), out)
        m0 = re.search(r"'%s' does not depend on any axioms" % re.escape(ob["theorem"]), out)
        if m or m0:
            axs = [a.strip() for a in m.group(1).split(",")] if m else []
            ob["axioms"] = axs
            bad = [a for a in axs if a not in ALLOWED_AXIOMS]
            if bad: ob["why"] = "inadmissible axioms: " + ", ".join(bad)
            elif flags: ob["why"] = "source audit: " + flags[:300]
            else: ob["discharged"] = True
        else:
            ob["why"] = "theorem missing from the build"
    return obligations, log, flags


def write_evidence(prop, tier, seed, t0, obligations, stats, violations):
    reg = REGISTRY[prop]
    modules = sorted({m for m, _ in reg["theorems"]})
    cov = {
        "obligations": len(obligations), "discharged": sum(o["discharged"] for o in obligations),
        "checker_cmd": "cd lean && lake build Apimodel && lake env lean <#print axioms of every registered theorem>" +
                       (" && lake env leanchecker " + " ".join(modules) if tier == "thorough" else ""),
        "trusted_base": ["Lean 4.33.0 kernel", "axioms admitted: " + ", ".join(sorted(ALLOWED_AXIOMS)),
                         "hand-written model of the anchored code, tied to /repo by the correspondence run recorded below",
                         "tools/extract.py (tables and cache wiring regenerated from /repo on every run)",
                         "CPython, typing, dataclasses, and for schema properties the jsonschema package as cross-check of the Lean validators"]
                        + reg.get("trusted_extra", []),
        "theorems": obligations, "partial_clauses": reg.get("partial", ""),
        "evaluations": stats.get("evaluations", 0), "distinct_nontrivial": stats.get("distinct_nontrivial", 0),
        "rule": stats.get("rule", ""), "samples": stats.get("samples", [])[:6],
        "histograms": stats.get("histograms", {}), "known_findings_seen": dict(stats.get("known", {})),
        "correspondence": stats.get("correspondence", {}),
        "in_theorem_scope": stats.get("in_scope", None),
    }
    ev = {"property_id": prop, "tier": tier, "seed": seed, "level": "proof", "wall_s": round(time.time() - t0, 2),
          "violations": violations, "coverage": cov,
          "assumptions": reg.get("assumptions", []) + stats.get("assumptions", [])}
    path = os.path.join(ROOT, "evidence", f"{prop}.json")
    with open(path, "w") as f: json.dump(ev, f, indent=1, default=repr)
    sys.path.insert(0, DEPS)
    import jsonschema
    jsonschema.validate(json.load(open(path)), json.load(open(SCHEMA)))
    return path


def case_size(c):
    return len(json.dumps(c, default=repr))


def main():
    ap = argparse.ArgumentParser(); ap.add_argument("prop")
    ap.add_argument("--tier", default=os.environ.get("VERIF_TIER") or "quick")
    ap.add_argument("--replay"); a = ap.parse_args()
    prop, tier = a.prop, a.tier if a.tier in ("quick", "thorough") else "quick"
    seed = int(os.environ.get("VERIF_SEED") or "0"); t0 = time.time()
    if os.environ.get("PYTHONHASHSEED") is None:
        # one PRNG state for everything, including set iteration order of the real code
        os.environ["PYTHONHASHSEED"] = str(seed % 4294967295)
        os.execv(sys.executable, [sys.executable] + sys.argv)
    reg = REGISTRY[prop]
    limit = int(os.environ.get("VERIF_TIMEOUT", {"quick": 900, "thorough": 5400}[tier]))
    def on_alarm(*_):
        print(f"TIMEOUT property={prop} after {limit}s (not a verdict)"); os._exit(2)
    signal.signal(signal.SIGALRM, on_alarm); signal.alarm(limit)

    driver_ok, lib_ok, blog = bootstrap()
    os.environ["PYTHONPATH"] = REPO + os.pathsep + DEPS
    sys.path[:0] = [os.path.join(ROOT, "harness"), REPO, DEPS]
    engine = importlib.import_module(reg["engine"])
    known = json.load(open(os.path.join(ROOT, "known_findings.json")))
    open_kfs = [k for k in known["findings"] if k["property"] == prop and k["status"] == "open"]
    ctx = {"prop": prop, "tier": tier, "driver_ok": driver_ok, "root": ROOT, "repo": REPO, "kfs": [k["id"] for k in open_kfs]}
    if a.replay:
        res = engine.replay(prop, json.load(open(a.replay)), ctx)
        print(json.dumps(res, indent=1, default=repr)); sys.exit(1 if res.get("fails") else 0)

    obligations, alog, flags = audit(prop, lib_ok)
    broken = [o for o in obligations if not o["discharged"]]
    budget = {"quick": 1, "thorough": 10}[tier]

    def explore(budget, seed):
        stats = engine.run(prop, seed, budget, ctx)
        viol, k_only = [], []
        for case in stats.pop("failures"):
            kf = next((k for k in open_kfs if engine.is_known(k["id"], case)), None)
            if kf: stats.setdefault("known", collections.Counter())[kf["id"]] += 1
            elif case.get("kind") == "K": k_only.append(case)
            else: viol.append(case)
        return stats, viol, k_only

    try:
        stats, viol, k_only = explore(budget, seed)
    except Exception:
        traceback.print_exc(); print(f"INTERNAL engine failure property={prop}"); sys.exit(2)
    if (broken or k_only) and not viol:
        # something no longer checks: search harder for an input on which the property itself fails
        try:
            stats2, viol, k2 = explore(budget * 6, seed + 7919)
            stats["evaluations"] = stats.get("evaluations", 0) + stats2.get("evaluations", 0)
            stats["distinct_nontrivial"] = stats.get("distinct_nontrivial", 0) + stats2.get("distinct_nontrivial", 0)
            for k, n in stats2.get("known", {}).items(): stats.setdefault("known", collections.Counter())[k] += n
            k_only += k2
        except Exception:
            traceback.print_exc()
    for k, n in sorted(stats.get("known", {}).items()):
        what = next(f["what"] for f in open_kfs if f["id"] == k)
        print(f"KNOWN-FINDING: property={prop} {k}: {what} ({n} cases this run)")
    rc = 0
    if viol:
        v = min(viol, key=case_size)
        h = hashlib.sha1(json.dumps(v, sort_keys=True, default=repr).encode()).hexdigest()[:10]
        path = os.path.join(ROOT, "replays", f"{prop}-{h}.json"); json.dump(v, open(path, "w"), indent=1, default=repr)
        print(f"VIOLATION property={prop} replay={path}"); rc = 1
    elif broken or k_only:
        what = {"broken_obligations": broken, "build_log": (blog + alog)[-3000:], "source_audit": flags,
                "broken_correspondence": {"disagreements": len(k_only), "smallest": min(k_only, key=case_size) if k_only else None},
                "searched_cases": stats.get("evaluations", 0)}
        path = os.path.join(ROOT, "replays", f"{prop}-unproved-{seed}.json"); json.dump(what, open(path, "w"), indent=1, default=repr)
        print(f"VIOLATION property={prop} replay={path} no-failing-input-found"); rc = 1
    if tier == "thorough" and not broken:
        modules = sorted({m for m, _ in reg["theorems"]})
        r = sh(["lake", "env", "leanchecker"] + modules, cwd=LEAN)
        if r.returncode:
            print("leanchecker failed:", r.stdout[-800:], r.stderr[-800:]); sys.exit(2)
        stats.setdefault("correspondence", {})["leanchecker"] = "ok: " + " ".join(modules)
    ev = write_evidence(prop, tier, seed, t0, obligations, stats, len(viol))
    print(f"{prop} {tier} seed={seed}: obligations {sum(o['discharged'] for o in obligations)}/{len(obligations)}, "
          f"{stats.get('evaluations')} cases, {stats.get('distinct_nontrivial')} distinct non-trivial, evidence {ev}, exit {rc}")
    sys.stdout.flush()
    os._exit(rc)


if __name__ == "__main__":
    main()
