"""Per-property registration: proof obligations (module, theorem), engine, partial clauses, assumptions."""

A = "Apimodel."
MODEL_ASSUMPTIONS = [
    "the hand-written Lean model mirrors the anchored code; its agreement with /repo is measured by the correspondence run, not proved",
    "typing introspection and Visitor dispatch from real annotations to the model's type grammar are seen only by the correspondence",
    "recursive classes are presented to the model as finite unfoldings",
]

REGISTRY = {
    "C01": {
        "engine": "engine_deser",
        "theorems": [(A + "AcceptThm", "Api.C01_accept"), (A + "AcceptThm", "Api.accepts_iff_conforms"), (A + "AcceptThm", "Api.compile_noFail"),
                     (A + "UnionSelThm", "Api.C01_accept_union"), (A + "AcceptUnionThm", "Api.C01_acceptU"), (A + "AcceptUnionThm", "Api.acceptsU"),
                     (A + "AcceptThm", "Api.compile_noFailU"), (A + "AcceptThm", "Api.acc_accU"), (A + "AcceptThm", "Api.isOk_finishObj"), (A + "AcceptThm", "Api.depMissing_isEmpty"), (A + "ImageThm", "Api.C01_image_partial"),
                     (A + "FieldLoopSrcThm", "Api.fieldLoop_matches_source"), (A + "FieldLoopSrcThm", "Api.fieldLoop_covered"),
                     (A + "ObjTailSrcThm", "Api.tail_matches_source"), (A + "ObjTailSrcThm", "Api.tail_covered"), (A + "ObjTailSrcThm", "Api.tail_pinned"),
                     (A + "ConstraintsSrcThm", "Api.numErrors_matches_source"), (A + "ConstraintsSrcThm", "Api.mergeSrc_spec"), (A + "ConstraintsSrcThm", "Api.merge_bounds_match_source"), (A + "ConstraintsSrcThm", "Api.constraints_pinned"),
                     (A + "GenericsThm", "Api.Generics.resolve_closed"), (A + "GenericsThm", "Api.Generics.resolve_spec_fields"), (A + "GenericsThm", "Api.Generics.resolve_names"),
                     (A + "GenericsThm", "Api.Generics.substitutions_use_own_parameters"), (A + "GenericsThm", "Api.Generics.appearance_order_counterexample"),
                     (A + "GenericsThm", "Api.Generics.old_eq_of_same_order"), (A + "GenericsCompThm", "Api.Generics.resolve_two_step"), (A + "GenericsCompThm", "Api.Generics.subst_comp"), (A + "GenericsHintsThm", "Api.Generics.hints_names_nodup"), (A + "GenericsHintsThm", "Api.Generics.lookup_setHint"),
                     (A + "GenericsHintsThm", "Api.Generics.hints_walk_source"),
                     (A + "AggregateThm", "Api.Agg.patLoop_first"), (A + "AggregateThm", "Api.Agg.patLoop_cover"), (A + "AggregateThm", "Api.Agg.patLoop_disjoint"),
                     (A + "AggregateThm", "Api.Agg.flatLoop_takes"), (A + "AggregateThm", "Api.Agg.attrib_unexpected"), (A + "AggregateThm", "Api.Agg.attrib_additional"),
                     (A + "AggregateThm", "Api.Agg.agg_steps_pinned"), (A + "TypedDictKeysThm", "Api.typedDict_result_keys_nodup")],
        "partial": "C01_acceptU: acceptance <=> `conforms` on Ty.accU (unions of any shape at any depth, dependent_required included; sets, uniqueItems and field-level "
                   "fall_back_on_default outside) for data with distinct keys and no crash-prone leaf; C01_accept: the same on Ty.acc (a union is only Optional) "
                   "for every datum with distinct keys; C01_image_partial: typed image on the index-keyed fragment; generic classes: the resolution of type arguments (single inheritance, "
                   "fields declared again in subclasses) is a separate model (Generics) tied by its own correspondence, and the acceptance theorems speak about the resolved class; aggregate fields: the "
                   "attribution of keys is proved (Aggregate), the acceptance of a class with aggregate fields is decided by the reference oracle and the twins, not by C01_acceptU",
        "assumptions": MODEL_ASSUMPTIONS,
    },
    "C02": {
        "engine": "engine_deser",
        "theorems": [(A + "ErrorsThm", "Api.C02_errors_eq_partial"), (A + "ErrorsThm", "Api.errors_eq_violations"), (A + "ErrorsOptThm", "Api.errors_optional"), (A + "ErrorsOptThm", "Api.C02_errors_optional"),
                     (A + "ObjErrorsThm", "Api.C02_object_level"), (A + "TablesThm", "Api.Tables.C02_error_templates"),
                     (A + "FieldLoopSrcThm", "Api.fieldLoop_matches_source"), (A + "FieldLoopSrcThm", "Api.fieldLoop_dep"), (A + "FieldLoopSrcThm", "Api.fieldLoop_covered"),
                     (A + "ObjTailSrcThm", "Api.tail_matches_source"), (A + "ConstraintsSrcThm", "Api.numErrors_matches_source"), (A + "ConstraintsSrcThm", "Api.strLenErrors_matches_source"),
                     (A + "ConstraintsSrcThm", "Api.listLenErrors_matches_source"), (A + "ConstraintsSrcThm", "Api.dictErrors_matches_source")],
        "partial": "list equation errors = violations on primitives / lists / tuples / NewTypes / annotations; per-object law (children = violating keys, including `missing property (required by [...])` of dependent_required, "
                   "both directions) for ObjectMethod; Optional[T] over any method whose errors are the specification's (errors_optional: own messages, `expected null`, then the located errors; "
                   "C02_errors_optional for the index-keyed fragment, every option record); order of name-keyed children and mappings not yet proved",
        "assumptions": MODEL_ASSUMPTIONS,
    },
    "C03": {
        "engine": "engine_deser",
        "theorems": [(A + "NoCrashThm", "Api.C03_no_crashU"), (A + "NoCrashThm", "Api.no_crashU"), (A + "NoCrashThm", "Api.nc_unionSel"),
                     (A + "CoerceUnionThm", "Api.no_crashC"), (A + "CoerceUnionThm", "Api.coerce_nc"),
                     (A + "NoCrashThm", "Api.C03_no_crash"), (A + "NoCrashThm", "Api.C03_no_crash_json"), (A + "NoCrashThm", "Api.no_crash"),
                     (A + "NoCrashThm", "Api.jsonX_of_json"), (A + "NoCrashThm", "Api.C03_crash_counterexamples"),
                     (A + "RecLockThm", "Api.Rec.memo_keyed_by_default_conversion"), (A + "RecMemoThm", "Api.Rec.memo_history_invisible"), (A + "RecMemoThm", "Api.Rec.shared_memo_counterexample"),
                     (A + "RecSeq", "Api.Rec.early_write_counterexample"), (A + "RecLockThm", "Api.Rec.visit_pinned"), (A + "RecSoundThm", "Api.Rec.true_sound"), (A + "RecDepthThm", "Api.Rec.analysis_depth_bounded")],
        "partial": "no-crash proved in strict mode on Ty.accU (unions of any shape at any depth) without uniqueItems for every datum of Py.jsonX: JSON containers with string keys whose leaves may be "
                   "any object that is not an instance of the JSON classes (tuples, bytes, ...), and likewise for the tree built with the default coercer (no_crashC); non-string keys, JSON-class subclasses and purity "
                   "(input not modified) are decided by the correspondence / harness only; no RecursionError while a method is compiled: an answer True of the recursion analysis is "
                   "a type that reaches itself (true_sound: every graph, every history of calls); the converse is decided on generated class graphs (memo = model, answers exact, cold first uses return)",
        "assumptions": MODEL_ASSUMPTIONS + ["the model is a pure function: 'never modifies the input' is a harness test, not a theorem"],
    },
    "C08": {
        "engine": "engine_deser",
        "theorems": [(A + "RawDcThm", "Api.raw_dataclass_conditions"), (A + "NoCopyThm", "Api.C08_no_copy"), (A + "NoCopyThm", "Api.noCopy_independent"),
                     (A + "TablesThm", "Api.Tables.C08_check_only_table"), (A + "TablesThm", "Api.Tables.C08_fast_path_conditions"),
                     (A + "FieldLoopSrcThm", "Api.fieldLoopSimple_matches_source"), (A + "FieldLoopSrcThm", "Api.fieldLoopSimple_covered")],
        "partial": "independence of no_copy proved on Ty.scope (TypedDict outside; any key type since the repair of row 30); constructor override, precomputed method, "
                   "check_type and pass-through are decided by the correspondence / relational checks on the real code",
        "assumptions": MODEL_ASSUMPTIONS,
    },
    "C13": {
        "engine": "engine_deser",
        "theorems": [(A + "TryShapesThm", "Api.try_shapes"), (A + "UnionThm", "Api.C13_sequential"), (A + "UnionThm", "Api.C13_byType"), (A + "UnionThm", "Api.C13_byType_at"),
                     (A + "UnionThm", "Api.C13_byType_eq_sequential"), (A + "UnionThm", "Api.C13_optional"),
                     (A + "UnionThm", "Api.compile_byTypeSound"), (A + "UnionThm", "Api.C13_byType_unsound_float"),
                     (A + "UnionSelThm", "Api.union_accepts_at"), (A + "UnionSelThm", "Api.C01_accept_union"),
                     (A + "UnionSrcThm", "Api.unionSel_matches_source"), (A + "UnionSrcThm", "Api.unionSelC_matches_source"),
                     (A + "AcceptUnionThm", "Api.acceptsU"), (A + "AcceptUnionThm", "Api.C01_acceptU")],
        "partial": "deserialization side: whichever of the three union methods is compiled, at any depth, the union accepts iff some alternative "
                   "conforms (acceptsU), and all three = first accepting alternative under the stated side conditions; "
                   "discriminators, serialization of unions and TaggedUnion are not modelled yet",
        "assumptions": MODEL_ASSUMPTIONS,
    },
    "C14": {
        "engine": "engine_deser",
        "theorems": [(A + "TryShapesThm", "Api.try_shapes"), (A + "LitCoerceThm", "Api.tryLitClasses_perm"), (A + "LitCoerceThm", "Api.tryLitClasses_perm_unique"), (A + "LitCoerceThm", "Api.tryLitClasses_eq"), (A + "CoerceUnionThm", "Api.C14_monotoneU"), (A + "CoerceUnionThm", "Api.conforms_acceptedC"), (A + "CoerceThm", "Api.C14_monotone_partial"), (A + "CoerceThm", "Api.coerce_prim"), (A + "CoerceThm", "Api.coerce_instance"), (A + "CoerceThm", "Api.C14_coerce_table"), (A + "CoerceSrcThm", "Api.coerce_matches_source"), (A + "CoerceSrcThm", "Api.C14_source_table"),
                     (A + "CoerceThm", "Api.C14_union_witness_repaired"), (A + "TablesThm", "Api.Tables.C14_word_table")],
        "partial": "monotonicity proved on Ty.accU without uniqueItems (unions of any shape at any depth: C14_monotoneU, through `conforms`: whatever conforms is accepted "
                   "by the coerced tree) for good data; sets and field fall-back outside; equality of the results for union-free types and custom coercers are decided by "
                   "the checks on the real code; numeral parsing (int(str), float(str), str(float)) enters as oracle tables",
        "assumptions": MODEL_ASSUMPTIONS + ["CPython's int(str) / float(str) / str(float) are oracle tables (CoerceEnv), modelled not verified"],
    },
}

REGISTRY["C16"] = {
    "engine": "engine_order",
    "theorems": [(A + "OrderSrcThm", "Api.classify_matches_source"), (A + "OrderSrcThm", "Api.walk_matches_source"), (A + "OrderSrcThm", "Api.order_definitions_pinned"),
                 (A + "OrderSrcThm", "Api.bucket_after"), (A + "OrderSrcThm", "Api.bucket_before"), (A + "OrderThm", "Api.sortByOrder_nodup"), (A + "OrderThm", "Api.sortByOrder_sub"), (A + "OrderThm", "Api.sortByOrder_perm"),
                 (A + "OrderThm", "Api.C16_loses_counterexample")],
    "model_is_spec": True,
    "partial": "sortByOrder_perm (never loses a field) holds under `anchored`; finding KF17: dangling / cyclic after/before drop fields",
    "assumptions": ["the Lean sortByOrder is the executable specification of the order; all four views call the same function on (name, ordering) lists, "
                    "which the correspondence observes rather than proves"],
}

REGISTRY["C15"] = {
    "engine": "engine_fieldsset",
    "theorems": [(A + "FieldsSetSrcThm", "Api.afterInit_matches_source"), (A + "FieldsSetSrcThm", "Api.afterInit_matches_source_fresh"), (A + "FieldsSetSrcThm", "Api.fs_definitions_pinned"), (A + "FieldsSetSrcThm", "Api.fs_atoms_known"),
                 (A + "FieldsSet", "Api.C15_deserialize"), (A + "FieldsSet", "Api.C15_setattr"), (A + "FieldsSet", "Api.C15_unset"),
                 (A + "FieldsSet", "Api.C15_set"), (A + "FieldsSet", "Api.C15_replace")],
    "model_is_spec": True,
    "partial": "classes directly decorated with with_fields_set (inheritance to / from undecorated classes is not modelled); "
               "exclude_unset serialization is checked against the machine on the real code, not proved",
    "assumptions": ["the state machine abstracts an instance to the set of names in __fields_set__; constructor / __setattr__ wrapping is observed, not proved"],
}

REGISTRY["C10"] = {
    "engine": "engine_validate",
    "theorems": [(A + "Validators", "Api.Validators.C10_ran"), (A + "Validators", "Api.Validators.C10_ok_iff"),
                 (A + "Validators", "Api.Validators.C10_gate"), (A + "Validators", "Api.Validators.C10_result")],
    "model_is_spec": True,
    "partial": "validate() (who runs, in which order, when an error is raised) and the gate of ObjectMethod are proved; dependency discovery "
               "(ast walk, inheritance through __mro__), yielded paths and alias relocation are observed by the engine only",
    "assumptions": ["validator bodies are parameters (pass / fail with a given error); dependency and discard sets are data"],
}

REGISTRY["C06"] = {
    "engine": "engine_schema",
    "theorems": [(A + "ConstraintsSrcThm", "Api.numErrors_matches_source"), (A + "ConstraintsSrcThm", "Api.merge_bounds_match_source"), (A + "EndToEnd", "Api.C06_deserialize_iff_schema"), (A + "SchemaThm", "Api.C06_schema_iff_conforms"),
                 (A + "SchemaThm", "Api.schema_iff_conforms"), (A + "SchemaThm", "Api.C06_literal_constraint_counterexample"),
                 (A + "SchemaThm", "Api.C06_int_float_counterexample")],
    "partial": "deserialize <=> validates(buildD) on Ty.acc /\\ Ty.sch and sane data; outside: sets, non-string literals, key types other than str, "
               "float with huge ints, constraints on literals (each with a counterexample theorem or a known finding), $ref-bearing schemas",
    "trusted_extra": ["Lean formalisation of the 2020-12 keywords apischema emits, cross-checked against jsonschema on every generated (schema, datum) pair"],
    "assumptions": MODEL_ASSUMPTIONS,
}
REGISTRY["C07"] = {
    "engine": "engine_schema",
    "theorems": [(A + "SerSchema", "Api.C07_serialized_validates"), (A + "SerSchema", "Api.C04_keys"), (A + "OmitSrcThm", "Api.skippable_matches_source"), (A + "OmitSrcThm", "Api.omit_matches_source"),
                 (A + "SerSchema", "Api.C07_options_mismatch_counterexample")],
    "partial": "proved for primitives, lists, tuples, NewTypes and dataclasses nested to any depth under every exclude_none / exclude_defaults / "
               "additional_properties record; serialized methods, mappings, unions, enums, TypedDicts and Any are decided by the engine only",
    "trusted_extra": ["Lean formalisation of the 2020-12 keywords, cross-checked against jsonschema"],
    "assumptions": MODEL_ASSUMPTIONS,
}
REGISTRY["C18"] = {
    "engine": "engine_schema",
    "theorems": [(A + "VersionsSrcThm", "Api.to2019_keys_match"), (A + "VersionsSrcThm", "Api.to7_vocabulary"), (A + "VersionsSrcThm", "Api.versions_pinned"), (A + "VersionsThm", "Api.C18_to07_preserves"), (A + "VersionsThm", "Api.C18_buildD"),
                 (A + "VersionsThm", "Api.C18_vocabulary"), (A + "VersionsThm", "Api.C18_vocabulary_counterexample"),
                 (A + "TablesThm", "Api.Tables.C18_vocabulary_generated"), (A + "TablesThm", "Api.Tables.C18_version_table")],
    "partial": "instance preservation proved for the 2019-09 / draft-07 rewrite of the array keywords at every depth; `definitions` / `dependencies` "
               "renaming and the OpenAPI 3.0 rewrite are decided by the engine (vocabulary scan + jsonschema per draft)",
    "trusted_extra": ["Lean formalisation of draft-07 / 2019-09 array keywords, cross-checked against jsonschema's Draft7Validator / Draft201909Validator"],
    "assumptions": MODEL_ASSUMPTIONS,
}

REGISTRY["C17"] = {
    "engine": "engine_refs",
    "theorems": [(A + "Refs", "Api.Refs.C17_closed"), (A + "RefsThm", "Api.Refs.C17_finite"), (A + "RefsThm", "Api.Refs.C17_once"),
                 (A + "RefsThm", "Api.Refs.C17_all_refs"), (A + "TablesThm", "Api.Tables.C18_version_table")],
    "partial": "closedness, finiteness (the builder terminates on every type graph, recursive ones included), exactly-once and the all_refs rule are "
               "proved on type graphs; meta-schema validity, definitions_schema = inline $defs and the refusal of name clashes are decided by the engine",
    "trusted_extra": ["jsonschema's check_schema as the meta-schema oracle"],
    "assumptions": ["type graphs abstract classes to (name, occurrences of other names in the body); type_name overrides, generics and conversions "
                    "changing the referenced type are seen only by the engine"],
}

REGISTRY["C04"] = {
    "engine": "engine_ser",
    "theorems": [(A + "MetaChainThm", "Api.Meta.outermost_wins"), (A + "MetaChainThm", "Api.Meta.chain_source"), (A + "SerSchema", "Api.C04_keys"), (A + "SerSchema", "Api.omitted_skippable"), (A + "SerSchema", "Api.serFields_props"),
                 (A + "SerJsonThm", "Api.C04_json_only"), (A + "SerJsonThm", "Api.ser_pure"), (A + "SerJsonThm", "Api.C04_nonstring_keys_counterexample"),
                 (A + "OmitSrcThm", "Api.omit_matches_source"), (A + "OmitSrcThm", "Api.serFieldStep_matches_source"), (A + "OmitSrcThm", "Api.simple_field_matches_source"),
                 (A + "OmitSrcThm", "Api.omit_atoms_covered"), (A + "OmitSrcThm", "Api.other_strategies_always_write")],
    "partial": "the omission conditions of ComplexField.update_result, the flags SerializationMethodVisitor.object passes and ObjectField.skippable are regenerated from the source as Boolean "
               "terms on every run and proved equal to the model's omission rule (omit_matches_source, serFieldStep_matches_source, simple_field_matches_source); on well-typed values of the fragment (primitives, lists, tuples, NewTypes, dataclasses at any depth) serialize returns and its result is JSON-only "
               "(C04_json_only); emitted keys = aliases of the non-omitted fields in field order, and the omission rule against the 2^4 flag combinations, are proved; "
               "the full image (conversions, serialized methods, flattened fields, fall_back_on_any, check_type) is decided by the correspondence with the "
               "semantic model of serialization and by the checks on the real code",
    "assumptions": MODEL_ASSUMPTIONS,
}
REGISTRY["C05"] = {
    "engine": "engine_ser",
    "theorems": [(A + "RoundTripObjThm", "Api.C05_roundtrip_objects"), (A + "RoundTripObjThm", "Api.roundtripO_nocopy_off"),
                 (A + "RoundTripThm", "Api.C05_roundtrip_partial"), (A + "RoundTripThm", "Api.roundtrip_nocopy_off")],
    "partial": "deserialize(serialize(v)) = v proved for primitives, lists, tuples, NewTypes and dataclasses (distinct names and aliases, any nesting) under the default "
               "serialization options and every deserialization option record (C05_roundtrip_objects), and on the index-keyed fragment for every serialization option "
               "record; mappings, sets, unions, enums, TypedDicts / NamedTuples, std-type conversions and json.dumps / loads transparency are decided by the engine",
    "assumptions": MODEL_ASSUMPTIONS,
}

REGISTRY["C09"] = {
    "engine": "engine_cache",
    "theorems": [(A + "Cache", "Api.Cache.C09"), (A + "Cache", "Api.Cache.C09_history"), (A + "Cache", "Api.Cache.C09_stale_without_reset"),
                 (A + "Cache", "Api.Cache.C09_stale_key_clash"), (A + "WiringThm", "Api.Wiring.no_unreset_path"), (A + "WiringThm", "Api.Wiring.unreset_are_known"), (A + "WiringThm", "Api.Wiring.wired")],
    "model_is_spec": True,
    "partial": "the abstract machine theorem needs every mutation of a history to go through a resetting path, locality of reads and faithful cache keys; "
               "the first is discharged by `decide` on the table regenerated from the source (listed exceptions = known findings), the other two are "
               "hypotheses (KeyFaithful is false for Union[A,B] / Union[B,A], row 13)",
    "assumptions": ["the wiring table is produced by tools/extract_wiring.py (pure ast) and cross-checked dynamically by the targeted enumeration of this check",
                    "`reads`, `key` and `compute` of the machine are parameters"],
}

REGISTRY["C11"] = {
    "engine": "engine_alias",
    "theorems": [(A + "MetaChainThm", "Api.Meta.outermost_wins"), (A + "MetaChainThm", "Api.Meta.field_metadata_wins"), (A + "MetaChainThm", "Api.Meta.chain_source"), (A + "Alias", "Api.Alias.C11_all_views"), (A + "Alias", "Api.Alias.C11_views"), (A + "Alias", "Api.Alias.C11_views_agree"), (A + "Alias", "Api.Alias.C11_dependentRequired_partial"),
                 (A + "Alias", "Api.Alias.C11_dependentRequired_counterexample"), (A + "Alias", "Api.Alias.C11_graphql_counterexample")],
    "model_is_spec": True,
    "partial": "every view, dependentRequired included since the repair of row 23, lists exactly the external names (for every aliaser function); "
               "flattened objects, discriminator keys and argument names are seen by the engines only",
    "assumptions": ["the model of a view is the string it feeds to its aliaser (`ObjectField.alias` or, with the defect of row 16, the field name); that each "
                    "real view reads that string is what the engine observes on generated classes"],
}

REGISTRY["C12"] = {
    "engine": "engine_conv",
    "theorems": [(A + "Conv", "Api.Conv.C12_registered_square"), (A + "Conv", "Api.Conv.C12_registration_order"), (A + "Conv", "Api.Conv.C12_dynamic_square"),
                 (A + "Conv", "Api.Conv.C12_identity"), (A + "Conv", "Api.Conv.C12_locality"), (A + "Conv", "Api.Conv.C12_through_optional"),
                 (A + "Conv", "Api.Conv.C12_through_list"), (A + "Conv", "Api.Conv.C12_rejects"),
                 (A + "Conv", "Api.Conv.C12_own_serializer"), (A + "Conv", "Api.Conv.C12_inherits"), (A + "Conv", "Api.Conv.C12_not_inherited_is_skipped")],
    "model_is_spec": True,
    "partial": "deserialization side of the resolution (dynamic before registered, identity, registration order, locality, containers) is stated on a "
               "model whose data, values and converters are opaque; the serialization squares, inherited serializers, schemas, generic and lazy "
               "conversions are decided by the engine on the real code only",
    "assumptions": ["converters, source-type deserialization and value assembly are parameters of the model; that the real visitor resolves conversions in the "
                    "modelled order is what the engine observes"],
}

REGISTRY["C19"] = {
    "engine": "engine_gql",
    "theorems": [(A + "Gql", "Api.Gql.C19_nullability"), (A + "Gql", "Api.Gql.C19_list_elements"), (A + "Gql", "Api.Gql.C19_names"),
                 (A + "Gql", "Api.Gql.C19_one_to_one"), (A + "Gql", "Api.Gql.C19_args_gate")],
    "model_is_spec": True,
    "partial": "nullability at every list level, names, one-to-one correspondence of named types and the argument gate are proved on the translation model; "
               "graphql-core's validation and execution engine are modelled not verified: validate_schema and graphql_sync are run by the engine; unions, "
               "interfaces, ID types, relay and subscriptions are not covered",
    "trusted_extra": ["graphql-core 3.2 (validate_schema, graphql_sync) as the execution oracle"],
    "assumptions": ["the output-type translation model covers scalars, Optional, List and named object types; input types and enums are observed by the engine"],
}

REGISTRY["C20"] = {
    "engine": "engine_rec",
    "theorems": [(A + "RecLockThm", "Api.Rec.lock_is_global"), (A + "RecLockThm", "Api.Rec.memo_keyed_by_default_conversion"), (A + "RecMemoThm", "Api.Rec.memo_per_context"), (A + "Rec", "Api.Rec.race_counterexample"), (A + "Rec", "Api.Rec.seq_ok"), (A + "Rec", "Api.Rec.C20_mutex"),
                 (A + "Rec", "Api.Rec.lockInv_run"), (A + "Rec", "Api.Rec.C20_locked_racy_schedule_ok"),
                 (A + "RecSeq", "Api.Rec.early_write_counterexample"), (A + "RecSeq", "Api.Rec.g1_repaired_exact"), (A + "RecLockThm", "Api.Rec.visit_pinned"),
                 (A + "RecSoundThm", "Api.Rec.step_sound"), (A + "RecSoundThm", "Api.Rec.true_sound"), (A + "RecSoundThm", "Api.Rec.true_sound_concurrent"),
                 (A + "RecSoundThm", "Api.Rec.acyclic_all_false"), (A + "RecSoundThm", "Api.Rec.onCycleB_sound"), (A + "RecSeq", "Api.Rec.wrong_false_overflows"), (A + "RecSeq", "Api.Rec.wrong_false_overflows_flag"), (A + "RecCompileThm", "Api.Rec.compileF_bound_irrelevant"), (A + "RecDepthThm", "Api.Rec.analysis_depth_bounded"),
                 (A + "RecSpecThm", "Api.Rec.onCycleB_iff"), (A + "RecSpecThm", "Api.Rec.exact_iff")],
    "partial": "the interleaving model covers the recursion analysis (the shared recursion cache): a race counterexample for the unsynchronised protocol and "
               "mutual exclusion of the locked protocol for every graph and schedule; soundness of the analysis (an answer True is a type that reaches itself: every graph, "
               "every history of calls, and two checkers under every schedule, locked or not); the converse (an answer False is a type on no cycle - the direction of row 96) is not proved: "
               "it is decided on generated class graphs by the correspondence with the model and a reference closure; the lru_cache fills, RecMethod / "
               "LazyConversion lazy initialisation and pre-emption inside C code are not in the model: they are exercised by schedule replay on real threads "
               "and by a stress run",
    "assumptions": ["the only shared-state accesses that matter for the modelled protocol are the reads / writes of the recursion cache, where the harness injects yields",
                    "CPython's GIL makes dict and lru_cache operations atomic"],
}

LEVEL_NOTE = ("Trusted: Lean 4.33 kernel; axioms propext / Classical.choice / Quot.sound only (audited by #print axioms on every run, no sorry / "
              "native_decide / own axioms); the hand-written model, tied to /repo by the differential correspondence of this check (same cases to the "
              "real code and to the compiled Lean driver) and, where this property's theorem list names a `…SrcThm` / `Tables` / `Wiring` / `RecLockThm` theorem, by "
              "terms regenerated from the source on every run (tools/extract.py: literal tables, cache wiring, if / elif chains, Boolean conditions, set "
              "expressions, dict programs, the lock shape) that the theorem proves equal to the model; CPython / typing / dataclasses. "
              "Clauses proved only on a fragment are named in the evidence (partial_clauses) and decided outside it by the correspondence and the "
              "property check on the real code.")

TEXT = {
    "C01": "Kernel-checked theorems: the compiled method accepts exactly the data that the declarative specification `conforms` admits, for every type tree of the scope, every option record and every datum (structural induction), plus the typed image on the index-keyed fragment; the model is tied to the real deserialize by a differential run, and acceptance <=> conforms is also evaluated on the real code.",
    "C02": "Kernel-checked equation errors = declared violations (completeness, exactly-once, location and order at once) on the index-keyed fragment and the per-object law for ObjectMethod; tied by comparing the real ValidationError.errors with the model and with the Lean specification.",
    "C03": "Kernel-checked no-crash theorem (run never returns the crash constructor) for JSON data in strict mode over the C01 scope; the malformed stream, coercion and purity are decided by the correspondence and by direct checks on the real code.",
    "C08": "Kernel-checked independence of no_copy for every type of the scope and every datum (value, error tree or exception identical); the other optimisation switches are compared on the real code on every case.",
    "C13": "Kernel-checked theorems: each of the three union methods returns the value of the first accepting alternative under explicit side conditions, and whatever union() selects accepts iff some alternative conforms; tied by running every alternative separately on the real code.",
    "C14": "Kernel-checked monotonicity of coercion (strictly accepted data stay accepted) on the union-free fragment incl. objects, for every word table and numeral oracle; the coercion model is tied to the real code case by case, exceptions included.",
}
TEXT["C16"] = ("Kernel-checked theorems on the model of sort_by_order (an instance of an abstract forest walk): the result never duplicates, is a sub-list of the "
               "declared elements, and is a permutation of them whenever every after/before chain reaches an element with an order value; the model is the "
               "executable specification and is compared with the key order of serialize, both schemas and the GraphQL type on generated classes.")
TEXT["C15"] = ("Kernel-checked characterisation of every operation of the with_fields_set state machine (membership after deserialization / construction, "
               "assignment, set_fields, unset_fields) over all classes, states and arguments; the machine is compared with the real fields_set after "
               "every operation of generated sequences, and exclude_unset serialization is checked against it.")
TEXT["C10"] = ("Kernel-checked theorems on the model of validate(): the validators executed, in order, are exactly those selected by the one-pass "
               "specification, for every list / outcome assignment / discard structure (structural recursion: termination by construction), an error is "
               "raised iff an executed validator failed, and the gate of the object method; tied by real Validator objects with logging bodies and "
               "by generated dataclasses with @validator methods run through deserialize.")
TEXT["C06"] = ("Kernel-checked equivalence validates(buildD T) d <=> conforms T d by induction along the specification, composed with C01 into "
               "deserialize accepts <=> the generated schema validates, for every type tree of the scope; the schema builder model is compared with the real "
               "schema, the Lean validator with jsonschema, and the property itself is evaluated on the real code with jsonschema as oracle.")
TEXT["C07"] = ("Kernel-checked theorem: whatever serialize emits for a well-typed value validates against the schema built under the same global "
               "settings (all 2^3 option records), on the dataclass fragment; the engine validates real serialized values against the real schema.")
TEXT["C18"] = ("Kernel-checked theorem: the draft-07 / 2019-09 rewrite, applied at every level, accepts exactly the instances of the 2020-12 schema, for "
               "every schema over the emitted keywords and every datum; vocabulary and instances are also checked on the real output per dialect.")
TEXT["C17"] = ("Kernel-checked theorems on the type-graph model of RefsExtractor and the builder: every $ref of the main schema and of every definition is a key "
               "of $defs, the builder produces every schema with fuel |names|+1 (it cannot recurse for ever), definition keys are duplicate-free and the "
               "all_refs rule; the model is compared with the $defs / $ref structure of real schemas on generated, recursive class graphs, and well-formedness "
               "is checked with the dialect's meta-schema.")
TEXT["C04"] = ("Kernel-checked theorems on the model of object serialization (emitted keys are exactly the aliases of the non-omitted fields, in field order; what "
               "serialize omits is what the options ask for, over all flag combinations); the semantic model of serialize is compared with the real "
               "output on generated values, and JSON-only output, serialize(v) = serialize(type(v), v) and the omission rule are checked on the real code.")
TEXT["C05"] = ("Kernel-checked round-trip theorem (exists j, ser T v = j and deserialize T j = v) on the index-keyed fragment for every serialization and "
               "deserialization option record; both round trips (also through json.dumps / loads) are evaluated on the real code on generated values.")
TEXT["C09"] = ("Kernel-checked theorem on an abstract cache machine: over every history (any length, evictions and resets interleaved) whose mutations go "
               "through resetting paths every observation equals the cold-start computation; the resetting paths are a table regenerated from the source on "
               "every run and checked by `decide`, and cross-checked on the live package by enumerating every (mutation, observation) pair against a cold start.")
TEXT["C11"] = ("Kernel-checked theorem: every modelled view (deserialize, serialize, properties / required of both schemas, error locations, GraphQL input and "
               "output fields) lists exactly aliaser(class_aliaser(alias or name)) for an arbitrary aliaser function, class aliaser and field list, hence any two "
               "views agree; tied by comparing up to eleven views of the real code with the specification on generated classes.")
TEXT["C12"] = ("Kernel-checked statements of the commuting squares on a model of conversion resolution (deserialize(C, d) = f(deserialize(S, d)) with the same "
               "rejections, registration order, dynamic conversions consumed at their target, identity bypass, locality at object fields, reach through "
               "containers), for every world of opaque converters; tied by running the squares on the real code with fresh converted classes.")
TEXT["C19"] = ("Kernel-checked theorems on the model of the Python-to-GraphQL type translation (non-null exactly when not Optional, at every list level; the named "
               "type is the class or scalar; distinct names stay distinct) and on the argument gate (resolver invoked iff every argument deserializes); "
               "tied by generated resolvers whose schemas are validated and executed with graphql-core and compared with serialize / deserialize.")
TEXT["C20"] = ("Kernel-checked small-step interleaving semantics of the recursion analysis over a shared cache: a counterexample schedule for the protocol without "
               "synchronisation (no axioms) and, for the locked protocol, mutual exclusion of the two analyses for every type graph and every schedule by "
               "induction over the schedule; tied by replaying generated schedules on real threads through yield points injected at the shared cache, plus a "
               "pre-emptive stress run compared with sequential execution. Partial: see level_note.")
SRC_TIED = {k for k, r in REGISTRY.items() if any(("SrcThm" in m or "TablesThm" in m or "WiringThm" in m or "RecLockThm" in m) for m, _ in r["theorems"])}
for k, v in TEXT.items():
    REGISTRY[k]["level_text"] = v
    REGISTRY[k]["level_note"] = LEVEL_NOTE
    REGISTRY[k]["technique"] = ("Lean 4 theorems over a hand-written model" + ("; parts of the model regenerated from the source by a translator on every run and "
                                "proved equal to it" if k in SRC_TIED else "") + "; differential correspondence with the real code; on a broken obligation or "
                                "correspondence, search for a failing input on the real code")

# properties registered in MANIFEST.json (a property is claimed once its check is green on the unchanged tree)
CLAIMED = ["C01", "C02", "C03", "C04", "C05", "C06", "C07", "C08", "C09", "C10", "C11", "C12", "C13", "C14", "C15", "C16", "C17", "C18", "C19", "C20"]
PENDING_REASON = "check under construction in this session (model and theorems exist, engine being registered); not yet claimed"
NOT_CLAIMED = {f"C{i:02d}": PENDING_REASON for i in range(1, 21) if f"C{i:02d}" not in CLAIMED}
