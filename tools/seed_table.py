#!/usr/bin/env python3
"""print the markdown table of DESIGN section 9 from seeded/*/meta.json"""
import json, os, re
ROOT = os.path.dirname(os.path.dirname(os.path.abspath(__file__)))
rows = []
for sid in sorted(os.listdir(os.path.join(ROOT, "seeded"))):
    d = os.path.join(ROOT, "seeded", sid); m = json.load(open(os.path.join(d, "meta.json")))
    note = m.get("needs", "")
    title = next((l.strip("# ").strip() for l in note.splitlines() if l.strip()), "")
    title = re.sub(r"\s+", " ", title)[:110]
    files = sorted(set(re.findall(r"^\+\+\+ b/(\S+)", open(os.path.join(d, "patch.diff")).read(), flags=re.M)))
    det = m.get("detected_by") or []
    runs = [r for r in m.get("ran", []) if r["exit"] == 1]
    how = ""
    if runs:
        line = runs[0]["lines"][0] if runs[0]["lines"] else ""
        how = "no-failing-input-found" if "no-failing-input-found" in line else "replay with a failing input"
    if m.get("neutralised_by_fix"): how = "the defect it re-opens was reported and repaired; the change is harmless since"
    rows.append((sid, ", ".join(f.replace("apischema/", "") for f in files), title, ", ".join(det) or "**missed**", how))
print("| seed | file(s) changed | what the change is / needs | caught by | how |")
print("|---|---|---|---|---|")
for r in rows: print("| " + " | ".join(r) + " |")
print(f"\n{sum(1 for r in rows if 'missed' not in r[3])} of {len(rows)} seeded changes are caught by the quick check of their property.")
