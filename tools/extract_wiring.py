"""Translator (C09): read apischema's source and regenerate the cache-wiring table as Lean data.

Everything here is syntactic (ast); nothing is imported from the package.  The output lists
  * the mutators of `CacheAwareDict` and whether each calls `reset()` after touching `self.wrapped`;
  * every module-level registry, with the wrapper (if any) around it;
  * every settings class (nested ones included), its attributes, and whether its metaclass chain reaches a
    metaclass whose `__setattr__` calls `cache.reset()`;
  * every function registered by `@cache` and every `lru_cache` that `reset()` cannot reach.
"""
import ast, json, os, sys

REPO = sys.argv[1] if len(sys.argv) > 1 else "/repo"
PKG = os.path.join(REPO, "apischema")
OUT = sys.argv[2] if len(sys.argv) > 2 else None

MUTABLE_CTORS = {"dict", "list", "set", "defaultdict", "OrderedDict", "WeakKeyDictionary",
                 "WeakValueDictionary", "deque", "Counter"}


def parse(path):
    with open(path) as f:
        return ast.parse(f.read(), path)


def calls(node, *names):
    """does the subtree call a function whose dotted name ends with one of `names`"""
    for n in ast.walk(node):
        if isinstance(n, ast.Call):
            f = n.func
            dotted = []
            while isinstance(f, ast.Attribute):
                dotted.append(f.attr); f = f.value
            if isinstance(f, ast.Name):
                dotted.append(f.id)
            d = ".".join(reversed(dotted))
            if any(d == nm or d.endswith("." + nm) for nm in names):
                return True
    return False


def touches_wrapped(fn):
    """the method assigns / deletes `self.wrapped[...]` or calls a mutating method on it"""
    for n in ast.walk(fn):
        tgts = []
        if isinstance(n, ast.Assign): tgts = n.targets
        elif isinstance(n, ast.AugAssign): tgts = [n.target]
        elif isinstance(n, ast.Delete): tgts = n.targets
        for t in tgts:
            if isinstance(t, ast.Subscript) and isinstance(t.value, ast.Attribute) and t.value.attr == "wrapped":
                return True
        if isinstance(n, ast.Call) and isinstance(n.func, ast.Attribute) and \
                isinstance(n.func.value, ast.Attribute) and n.func.value.attr == "wrapped" and \
                n.func.attr in {"pop", "popitem", "clear", "update", "setdefault", "__setitem__", "__delitem__"}:
            return True
    return False


def cache_module():
    tree = parse(os.path.join(PKG, "cache.py"))
    out = {"mutators": [], "reset_clears_all": False, "cache_registers": False, "set_size_reregisters": False}
    for node in tree.body:
        if isinstance(node, ast.ClassDef) and node.name == "CacheAwareDict":
            for fn in node.body:
                if isinstance(fn, ast.FunctionDef) and touches_wrapped(fn):
                    out["mutators"].append({"name": fn.name, "resets": calls(fn, "reset")})
        if isinstance(node, ast.FunctionDef) and node.name == "reset":
            # for cached in _cached: cached.cache_clear()
            out["reset_clears_all"] = any(
                isinstance(n, ast.For) and isinstance(n.iter, ast.Name) and n.iter.id == "_cached"
                and calls(n, "cache_clear") for n in ast.walk(node))
        if isinstance(node, ast.FunctionDef) and node.name == "cache":
            out["cache_registers"] = calls(node, "_cached.append")
        if isinstance(node, ast.FunctionDef) and node.name == "set_size":
            # the replaced wrappers must become the ones `reset()` iterates over
            out["set_size_reregisters"] = any(
                (isinstance(n, ast.Assign) and any(isinstance(t, ast.Subscript) and isinstance(t.value, ast.Name)
                                                  and t.value.id == "_cached" for t in n.targets))
                for n in ast.walk(node)) or calls(node, "_cached.append", "_cached.__setitem__")
    return out


def module_name(path):
    rel = os.path.relpath(path, REPO)[:-3].replace(os.sep, ".")
    return rel[:-9] if rel.endswith(".__init__") else rel


def py_files():
    for root, _, files in os.walk(PKG):
        for f in sorted(files):
            if f.endswith(".py"):
                yield os.path.join(root, f)


def ctor_name(call):
    f = call.func
    return f.id if isinstance(f, ast.Name) else f.attr if isinstance(f, ast.Attribute) else None


def module_state():
    """module-level names bound to a mutable container, and how they are wrapped"""
    regs = []
    for path in py_files():
        tree = parse(path)
        for node in tree.body:
            if isinstance(node, ast.AnnAssign) and node.value is not None and isinstance(node.target, ast.Name):
                name, val = node.target.id, node.value
            elif isinstance(node, ast.Assign) and len(node.targets) == 1 and isinstance(node.targets[0], ast.Name):
                name, val = node.targets[0].id, node.value
            else:
                continue
            wrapper = None
            if isinstance(val, ast.Call) and ctor_name(val) == "CacheAwareDict":
                wrapper = "CacheAwareDict"
            elif isinstance(val, (ast.Dict, ast.List, ast.Set)) and not (name.isupper() or name == "__all__"):
                wrapper = ""
            elif isinstance(val, ast.Call) and ctor_name(val) in MUTABLE_CTORS:
                wrapper = ""
            if wrapper is None:
                continue
            # is it mutated anywhere in its module outside the defining statement?
            mutated = wrapper == "CacheAwareDict" or is_mutated(tree, name)
            if mutated:
                regs.append({"module": module_name(path), "name": name, "wrapper": wrapper, "line": node.lineno})
    return regs


def nested_mutations(regs):
    """`REG[k].append(v)` / `REG[k][a] = v`: the value stored in a wrapped registry is changed in place, so
    the wrapper's `__setitem__` (and its `reset()`) never runs; a following `reset()` in the same function
    is accepted"""
    out = []
    wrapped = {(r["module"], r["name"]) for r in regs if r["wrapper"] == "CacheAwareDict"}
    for path in py_files():
        mod = module_name(path)
        names = {n for (m, n) in wrapped if m == mod}
        if not names: continue
        tree = parse(path)
        for fn in ast.walk(tree):
            if not isinstance(fn, (ast.FunctionDef, ast.Lambda)): continue
            aliases = {}
            for n in ast.walk(fn):
                if isinstance(n, ast.Assign) and len(n.targets) == 1 and isinstance(n.targets[0], ast.Name):
                    v = n.value
                    if isinstance(v, ast.Subscript) and isinstance(v.value, ast.Name) and v.value.id in names:
                        aliases[n.targets[0].id] = v.value.id
            for n in ast.walk(fn):
                hit = None
                tgts = []
                if isinstance(n, ast.Assign): tgts = n.targets
                elif isinstance(n, ast.AugAssign): tgts = [n.target]
                elif isinstance(n, ast.Delete): tgts = n.targets
                for t in tgts:
                    if isinstance(t, ast.Subscript) and isinstance(t.value, ast.Subscript) and \
                            isinstance(t.value.value, ast.Name) and t.value.value.id in names:
                        hit = t.value.value.id
                if isinstance(n, ast.Call) and isinstance(n.func, ast.Attribute) and \
                        n.func.attr in {"append", "add", "pop", "clear", "update", "setdefault", "remove",
                                        "discard", "extend", "insert", "popitem"}:
                    v = n.func.value
                    if isinstance(v, ast.Subscript) and isinstance(v.value, ast.Name) and v.value.id in names:
                        hit = v.value.id
                    if isinstance(v, ast.Name) and v.id in aliases:
                        hit = aliases[v.id]
                for t in tgts:
                    if isinstance(t, ast.Subscript) and isinstance(t.value, ast.Name) and t.value.id in aliases:
                        hit = aliases[t.value.id]
                if hit and not calls(fn, "reset"):
                    out.append({"module": mod, "name": hit, "where": getattr(fn, "name", "<lambda>"),
                                "line": n.lineno})
    seen, ded = set(), []
    for r in out:
        k = (r['module'], r['name'], r['where'])
        if k not in seen: seen.add(k); ded.append(r)
    return ded


def is_mutated(tree, name):
    for n in ast.walk(tree):
        tgts = []
        if isinstance(n, ast.Assign): tgts = n.targets
        elif isinstance(n, ast.AugAssign): tgts = [n.target]
        elif isinstance(n, ast.Delete): tgts = n.targets
        for t in tgts:
            if isinstance(t, ast.Subscript) and isinstance(t.value, ast.Name) and t.value.id == name:
                return True
        if isinstance(n, ast.Call) and isinstance(n.func, ast.Attribute) and isinstance(n.func.value, ast.Name) \
                and n.func.value.id == name and n.func.attr in {"append", "add", "pop", "clear", "update", "setdefault",
                                                                "remove", "discard", "extend", "insert", "popitem"}:
            return True
    return False


def settings_classes():
    tree = parse(os.path.join(PKG, "settings.py"))
    metas = {}   # metaclass name -> (bases, own __setattr__ resets?)
    for node in tree.body:
        if isinstance(node, ast.ClassDef):
            bases = [b.id for b in node.bases if isinstance(b, ast.Name)]
            if "type" in bases or any(b in metas for b in bases):
                own = None
                for fn in node.body:
                    if isinstance(fn, ast.FunctionDef) and fn.name == "__setattr__":
                        own = calls(fn, "cache.reset", "reset") and calls(fn, "__setattr__")
                metas[node.name] = (bases, own)

    def meta_resets(m):
        if m not in metas: return False
        bases, own = metas[m]
        if own is not None: return own
        return any(meta_resets(b) for b in bases)

    out = []

    def visit(cls, prefix):
        meta = None
        for kw in cls.keywords:
            if kw.arg == "metaclass" and isinstance(kw.value, ast.Name):
                meta = kw.value.id
        attrs = []
        for st in cls.body:
            if isinstance(st, ast.AnnAssign) and isinstance(st.target, ast.Name):
                attrs.append(st.target.id)
            elif isinstance(st, ast.Assign):
                attrs += [t.id for t in st.targets if isinstance(t, ast.Name)]
        path = prefix + cls.name
        out.append({"path": path, "metaclass": meta or "", "resets": meta_resets(meta) if meta else False,
                    "attrs": attrs})
        # properties with setters on the metaclass (settings.camel_case) delegate to attribute assignment
        for st in cls.body:
            if isinstance(st, ast.ClassDef):
                visit(st, path + ".")

    for node in tree.body:
        if isinstance(node, ast.ClassDef) and node.name == "settings":
            visit(node, "")
    return out


def caches():
    registered, private = [], []
    for path in py_files():
        if path.endswith("cache.py"): continue
        tree = parse(path)
        mod = module_name(path)

        def walk(node, ctx):
            for ch in ast.iter_child_nodes(node):
                c2 = ctx
                if isinstance(ch, (ast.FunctionDef, ast.ClassDef)):
                    c2 = ctx + [ch.name]
                    if isinstance(ch, ast.FunctionDef):
                        for d in ch.decorator_list:
                            dn = d.id if isinstance(d, ast.Name) else d.attr if isinstance(d, ast.Attribute) else \
                                ctor_name(d) if isinstance(d, ast.Call) else None
                            if dn == "cache":
                                registered.append({"module": mod, "name": ".".join(c2),
                                                   "params": [a.arg for a in ch.args.args], "top": not ctx})
                            elif dn == "lru_cache":
                                private.append({"module": mod, "where": ".".join(c2), "line": ch.lineno})
                if isinstance(ch, ast.Call) and isinstance(ch.func, ast.Call) and ctor_name(ch.func) == "lru_cache":
                    private.append({"module": mod, "where": ".".join(ctx), "line": ch.lineno})
                walk(ch, c2)
        walk(tree, [])
    return registered, private


def lean_str(s): return json.dumps(s)
def lean_bool(b): return "true" if b else "false"


def main():
    cm, regs, sets = cache_module(), module_state(), settings_classes()
    registered, private = caches()
    nested = nested_mutations(regs)
    L = []
    L.append("/-! GENERATED by tools/extract_wiring.py from the source tree — do not edit -/")
    L.append("namespace Api.Generated\n")
    L.append("/-- `CacheAwareDict` methods that touch `self.wrapped`, and whether they call `reset()` -/")
    L.append("def dictMutators : List (String × Bool) := [" +
             ", ".join(f"({lean_str(m['name'])}, {lean_bool(m['resets'])})" for m in cm["mutators"]) + "]")
    L.append(f"def resetClearsAll : Bool := {lean_bool(cm['reset_clears_all'])}")
    L.append(f"def cacheRegisters : Bool := {lean_bool(cm['cache_registers'])}")
    L.append(f"def setSizeReregisters : Bool := {lean_bool(cm['set_size_reregisters'])}")
    L.append("/-- module-level mutable state: (module, name, wrapper) -/")
    L.append("def registries : List (String × String × String) := [\n  " +
             ",\n  ".join(f"({lean_str(r['module'])}, {lean_str(r['name'])}, {lean_str(r['wrapper'])})" for r in regs) + "]")
    L.append("/-- in-place mutation of a value stored in a wrapped registry, with no `reset()` in the same function: (module, registry, function) -/")
    L.append("def nestedMutations : List (String × String × String) := [\n  " +
             ",\n  ".join(f"({lean_str(r['module'])}, {lean_str(r['name'])}, {lean_str(r['where'])})" for r in nested) + "]")
    L.append("/-- settings classes: (path, assignment resets the caches, attributes) -/")
    L.append("def settingsClasses : List (String × Bool × List String) := [\n  " +
             ",\n  ".join(f"({lean_str(s['path'])}, {lean_bool(s['resets'])}, [" +
                          ", ".join(lean_str(a) for a in s['attrs']) + "])" for s in sets) + "]")
    L.append("/-- functions registered with `@cache`: (module, qualified name, parameters) -/")
    L.append("def cachedFns : List (String × String × List String) := [\n  " +
             ",\n  ".join(f"({lean_str(c['module'])}, {lean_str(c['name'])}, [" +
                          ", ".join(lean_str(a) for a in c['params']) + "])" for c in registered) + "]")
    L.append("/-- `lru_cache`s that `reset()` does not reach: (module, enclosing definition) -/")
    L.append("def privateCaches : List (String × String) := [\n  " +
             ",\n  ".join(f"({lean_str(c['module'])}, {lean_str(c['where'])})" for c in private) + "]")
    L.append("\nend Api.Generated")
    text = "\n".join(L) + "\n"
    if OUT:
        with open(OUT, "w") as f: f.write(text)
    else:
        sys.stdout.write(text)


main()
