#!/bin/bash
# rerun_seeds_par.sh <workers> <seed id> ...: rerun banked seeded changes in parallel. Each worker has its own copy of /verif (the Lean build directory is
# per copy) and its own clone of /repo, both under /tmp and removed at the end; the meta.json files of the seeds a worker ran come back to /verif/seeded.
set -u
W=$1; shift
ids=("$@")
root=$(cd "$(dirname "$0")/.." && pwd)
for k in $(seq 0 $((W-1))); do
  rm -rf /tmp/sw$k; mkdir -p /tmp/sw$k
  rsync -a --exclude replays --exclude .git "$root/" /tmp/sw$k/verif/
  git clone -q /repo /tmp/sw$k/repo
  mine=(); for i in "${!ids[@]}"; do [ $((i % W)) -eq $k ] && mine+=("${ids[$i]}"); done
  printf '%s\n' "${mine[@]}" > /tmp/sw$k/mine
  ( cd /tmp/sw$k/verif && VERIF_REPO=/tmp/sw$k/repo python3 tools/rerun_seeds.py "${mine[@]}" > /tmp/sw$k/log 2>&1 ) &
done
wait
for k in $(seq 0 $((W-1))); do
  cat /tmp/sw$k/log
  while read -r id; do [ -n "$id" ] && cp "/tmp/sw$k/verif/seeded/$id/meta.json" "$root/seeded/$id/meta.json"; done < /tmp/sw$k/mine
  rm -rf /tmp/sw$k
done
