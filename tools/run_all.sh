#!/bin/bash
# run every registered quick check with the given seeds (default 0 1 2); print one line per run
cd "$(dirname "$0")/.."
seeds="${@:-0 1 2}"
for p in $(python3 -c "import json; print(' '.join(c['property_id'] for c in json.load(open('MANIFEST.json'))['checks']))"); do
  for s in $seeds; do
    out=$(VERIF_SEED=$s /venv/bin/python checks/check.py $p --tier quick 2>&1); rc=$?
    echo "$p seed=$s exit=$rc $(echo "$out" | grep -E '^VIOLATION|^INTERNAL|^TIMEOUT' | head -1 | cut -c1-120)"
  done
done
