#!/usr/bin/env python3
"""(re)write, under each `### Cxx` heading of DESIGN.md section 5, the line that lists what is registered for the property (checks/registry.py) and the
coverage rule of its engine (last evidence file)"""
import json, re, sys, os
ROOT = os.path.dirname(os.path.dirname(os.path.abspath(__file__)))
sys.path.insert(0, os.path.join(ROOT, "checks"))
import registry
p = os.path.join(ROOT, "DESIGN.md"); s = open(p).read()
s = re.sub(r"\n\*As built \(generated from checks/registry\.py and the last evidence\):\*.*?\n(?=\n)", "\n", s, flags=re.S)
for pid, reg in registry.REGISTRY.items():
    try: ev = json.load(open(os.path.join(ROOT, "evidence", pid + ".json")))
    except Exception: continue
    rule = ev["coverage"].get("rule") or ""
    if isinstance(rule, dict): rule = json.dumps(rule)
    thms = ", ".join(f"`{t.split('.')[-1]}`" for _, t in reg["theorems"])
    line = f"\n*As built (generated from checks/registry.py and the last evidence):* registered obligations — {thms}. Engine `{reg['engine']}` — {rule[:1600]}\n"
    m = re.search(r"^### %s [^\n]*\n" % pid, s, flags=re.M)
    if m: s = s[:m.end()] + line + s[m.end():]
open(p, "w").write(s)
print("DESIGN.md section 5 updated")
