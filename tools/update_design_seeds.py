#!/usr/bin/env python3
import os, subprocess, re
ROOT = os.path.dirname(os.path.dirname(os.path.abspath(__file__)))
table = subprocess.run(["python3", os.path.join(ROOT, "tools", "seed_table.py")], capture_output=True, text=True).stdout
p = os.path.join(ROOT, "DESIGN.md"); s = open(p).read()
s = re.sub(r"<!-- SEED-TABLE-START -->.*<!-- SEED-TABLE-END -->", "<!-- SEED-TABLE-START -->\n" + table + "<!-- SEED-TABLE-END -->", s, flags=re.S)
open(p, "w").write(s); print(table.splitlines()[-1])
