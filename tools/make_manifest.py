#!/usr/bin/env python3
"""Regenerate /verif/MANIFEST.json from checks/registry.py (claimed properties) and PENDING below."""
import json, os, sys
ROOT = os.path.dirname(os.path.dirname(os.path.abspath(__file__)))
sys.path.insert(0, os.path.join(ROOT, "checks"))
from registry import REGISTRY, CLAIMED, NOT_CLAIMED

PROPS = [json.loads(l) for l in open(os.path.join(ROOT, "properties.jsonl"))]
checks = []
for p in PROPS:
    pid = p["id"]
    if pid not in CLAIMED: continue
    reg = REGISTRY[pid]
    checks.append({
        "property_id": pid,
        "quick_cmd": f"/venv/bin/python checks/check.py {pid} --tier quick",
        "thorough_cmd": f"/venv/bin/python checks/check.py {pid} --tier thorough",
        "evidence_file": f"evidence/{pid}.json",
        "replay_cmd_template": f"/venv/bin/python checks/check.py {pid} --replay {{path}}",
        "engine": reg["engine"],
        "level_claimed": {"category": "proof", "text": reg["level_text"], "design_ref": reg.get("design_ref", "DESIGN.md section 5, " + pid)},
        "level_note": reg["level_note"],
        "technique": reg.get("technique", "Lean 4 theorems over a hand-written model + differential correspondence with the real code"),
    })
engines = {}
for pid in CLAIMED:
    engines.setdefault(REGISTRY[pid]["engine"], []).append(pid)
man = {
    "version": 1,
    "setup_cmd": "/venv/bin/python -m pip install -q --no-index --find-links /opt/veriftools/wheels --target .deps jsonschema && "
                 "/venv/bin/python tools/extract.py /repo lean/Apimodel/Generated && cd lean && lake build Apimodel driver",
    "hooks": {"guard": "APISCHEMA_VERIF", "enable": "no source hooks are needed: instrumentation is injected from the harness by wrapping module attributes",
              "baseline_off_cmd": "cd /repo && /venv/bin/python -m pytest -ra -q -p no:cacheprovider --timeout=900 --continue-on-collection-errors",
              "source_commits": [], "add_only": True},
    "engines": [{"name": e, "path": f"harness/{e}.py", "serves_properties": sorted(ps),
                 "kind_free_text": "differential correspondence (real apischema vs Lean model through the line-protocol driver) + property checks on the real code"}
                for e, ps in sorted(engines.items())],
    "checks": checks,
    "not_applicable": [{"property_id": k, "reason": v} for k, v in sorted(NOT_CLAIMED.items())],
    "notes": "Every check: regenerate Generated/*.lean from /repo (translator), lake build, #print axioms audit of the registered theorems, "
             "correspondence + property run on the real code, known-findings filter, evidence. Exit 0 held / 1 violation / 2 infrastructure.",
}
json.dump(man, open(os.path.join(ROOT, "MANIFEST.json"), "w"), indent=1)
sys.path.insert(0, os.path.join(ROOT, ".deps"))
try:
    import jsonschema
    jsonschema.validate(man, json.load(open("/root/.vp/MANIFEST.schema.json")))
    print("MANIFEST.json valid:", len(checks), "checks,", len(NOT_CLAIMED), "not claimed")
except ImportError:
    print("MANIFEST.json written (jsonschema not available for validation)")
