#!/bin/bash
# try_seeds_par.sh <round dir> <bank offset> <workers> <property> ...: confirm and run the two seeded changes of each property's scratch worktree
# (<round dir>/<property>/_seed) in parallel. Each worker has its own copy of /verif and its own clone of /repo under /tmp (removed at the end); the banked
# directories seeded/<property>-<i + offset> come back to /verif/seeded.
set -u
RD=$1; OFF=$2; W=$3; shift 3
props=("$@")
root=$(cd "$(dirname "$0")/.." && pwd)
for k in $(seq 0 $((W-1))); do
  rm -rf /tmp/tw$k; mkdir -p /tmp/tw$k
  rsync -a --exclude replays --exclude .git "$root/" /tmp/tw$k/verif/
  git clone -q /repo /tmp/tw$k/repo
  mine=(); for i in "${!props[@]}"; do [ $((i % W)) -eq $k ] && mine+=("${props[$i]}"); done
  printf '%s\n' "${mine[@]}" > /tmp/tw$k/mine
  ( cd /tmp/tw$k/verif && for p in "${mine[@]}"; do for i in 1 2; do
      echo "=== $p $i"; VERIF_REPO=/tmp/tw$k/repo BANK_OFFSET=$OFF /venv/bin/python tools/try_seed.py $p $RD/$p $i 2>&1 | tail -6
    done; done > /tmp/tw$k/log 2>&1 ) &
done
wait
for k in $(seq 0 $((W-1))); do
  cat /tmp/tw$k/log
  while read -r p; do [ -n "$p" ] && for i in 1 2; do d="/tmp/tw$k/verif/seeded/$p-$((i+OFF))"; [ -d "$d" ] && rm -rf "$root/seeded/$p-$((i+OFF))" && cp -r "$d" "$root/seeded/"; done; done < /tmp/tw$k/mine
  rm -rf /tmp/tw$k
done
