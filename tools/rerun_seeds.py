#!/usr/bin/env python3
"""rerun_seeds.py [<seed id> ...] [--checks C01,C06]: apply each banked seeded change (/verif/seeded/<id>/patch.diff) to /repo,
run the quick check of its property (or the given checks) with seeds 0..2, undo it straight afterwards, update meta.json."""
import json, os, subprocess, sys, time
ROOT = os.path.dirname(os.path.dirname(os.path.abspath(__file__)))
REPO = os.environ.get("VERIF_REPO", "/repo")     # (a clone of /repo when several copies of /verif rerun seeds in parallel: tools/rerun_seeds_par.sh)
args = [a for a in sys.argv[1:] if not a.startswith("--")]
extra = next((a.split("=", 1)[1].split(",") for a in sys.argv[1:] if a.startswith("--checks=")), None)
ids = args or sorted(os.listdir(os.path.join(ROOT, "seeded")))
def sh(cmd, **kw): return subprocess.run(cmd, shell=True, capture_output=True, text=True, **kw)
for sid in ids:
    d = os.path.join(ROOT, "seeded", sid); meta = json.load(open(os.path.join(d, "meta.json")))
    if meta.get("neutralised_by_fix"): print(sid, "neutralised by a later fix: skipped"); continue
    checks = extra or [meta["property"]]
    assert sh(f"git -C {REPO} status --porcelain --untracked-files=no").stdout.strip() == "", "/repo not clean"
    r = sh(f"git -C {REPO} apply {d}/patch.diff")
    if r.returncode:
        # later fix commits moved the context: the same hunks, applied with fuzz
        r = sh(f"patch -p1 -F3 --no-backup-if-mismatch -d {REPO} < {d}/patch.diff")
        if r.returncode:
            sh(f"git -C {REPO} checkout -- ."); sh(f"git -C {REPO} clean -fdq apischema")
            print(sid, "patch does not apply:", (r.stdout + r.stderr)[:200])
            meta["detected_by"] = []; meta["does_not_apply"] = True       # (never keep the verdict of an earlier tree: port the patch)
            json.dump(meta, open(os.path.join(d, "meta.json"), "w"), indent=1); continue
        meta["applied_with_fuzz"] = True
    ran = []
    try:
        for c in checks:
            for seed in (0, 1, 2):
                t0 = time.time()
                r = sh(f"VERIF_SEED={seed} /venv/bin/python checks/check.py {c} --tier quick", cwd=ROOT)
                lines = [l for l in r.stdout.splitlines() if l.startswith(("VIOLATION", "INTERNAL", "TIMEOUT"))]
                ran.append({"check": c, "seed": seed, "exit": r.returncode, "lines": lines, "wall_s": round(time.time() - t0, 1)})
                if r.returncode == 1: break
    finally:
        sh(f"git -C {REPO} checkout -- .")
    meta["ran"] = ran; meta["detected_by"] = sorted({x["check"] for x in ran if x["exit"] == 1})
    json.dump(meta, open(os.path.join(d, "meta.json"), "w"), indent=1)
    print(sid, "detected_by", meta["detected_by"], [(x["check"], x["seed"], x["exit"]) for x in ran])
# the evidence files written while a seeded change was applied describe the changed tree: put back the committed ones
sh(f"git -C {ROOT} checkout -- evidence")
