#!/usr/bin/env python3
"""try_seed.py <property> <scratch worktree> <i> [<check property> ...]

Confirm a seeded change produced by a sub-agent (tests still pass with it, its demonstration fails with it and passes
without it), then apply it to /repo, run the registered check(s), undo it straight afterwards, and bank the result under
/verif/seeded/<property>-<i>/ (patch.diff, demo.py, note.md, meta.json)."""
import json, os, shutil, subprocess, sys, time

prop, wt, i = sys.argv[1], sys.argv[2], sys.argv[3]
checks = sys.argv[4:] or [prop]
ROOT = os.path.dirname(os.path.dirname(os.path.abspath(__file__)))
REPO = os.environ.get("VERIF_REPO", "/repo")
seed_dir = os.path.join(wt, "_seed")
patch = os.path.join(seed_dir, f"patch_{i}.diff"); demo = os.path.join(seed_dir, f"demo_{i}.py"); note = os.path.join(seed_dir, f"note_{i}.md")


def sh(cmd, **kw):
    return subprocess.run(cmd, shell=True, capture_output=True, text=True, **kw)


meta = {"property": prop, "index": int(i), "ran": []}
env = dict(os.environ, PYTHONPATH=wt)
assert sh(f"git -C {wt} status --porcelain --untracked-files=no").stdout.strip() == "", "scratch worktree not clean"
r = sh(f"/venv/bin/python {demo}", env=env, cwd=wt); meta["demo_without_change"] = r.returncode
r = sh(f"git -C {wt} apply {patch}"); assert r.returncode == 0, r.stderr
try:
    r = sh("/venv/bin/python -m pytest -q -p no:cacheprovider 2>&1 | tail -1", env=env, cwd=wt); meta["tests_with_change"] = r.stdout.strip()
    r = sh(f"/venv/bin/python {demo}", env=env, cwd=wt); meta["demo_with_change"] = r.returncode
finally:
    sh(f"git -C {wt} checkout -- .")
meta["confirmed"] = meta["demo_without_change"] == 0 and meta["demo_with_change"] != 0 and "283 passed" in meta["tests_with_change"]
print("confirmation:", {k: meta[k] for k in ("demo_without_change", "demo_with_change", "tests_with_change", "confirmed")})
if meta["confirmed"]:
    assert sh(f"git -C {REPO} status --porcelain --untracked-files=no").stdout.strip() == "", "/repo not clean"
    r = sh(f"git -C {REPO} apply {patch}")
    if r.returncode:
        r = sh(f"patch -p1 -F3 --no-backup-if-mismatch -d {REPO} < {patch}"); meta["applied_with_fuzz"] = True
        if r.returncode: sh(f"git -C {REPO} checkout -- .")
    assert r.returncode == 0, r.stdout + r.stderr
    try:
        for c in checks:
            for seed in (0, 1):
                t0 = time.time()
                r = sh(f"VERIF_SEED={seed} /venv/bin/python checks/check.py {c} --tier quick", cwd=ROOT)
                lines = [l for l in r.stdout.splitlines() if l.startswith("VIOLATION") or l.startswith("INTERNAL") or l.startswith("TIMEOUT")]
                rec = {"check": c, "seed": seed, "exit": r.returncode, "lines": lines, "wall_s": round(time.time() - t0, 1)}
                if lines and "replay=" in lines[0]:
                    path = lines[0].split("replay=")[1].split()[0]
                    try: rec["replay_head"] = open(path).read()[:1500]
                    except OSError: pass
                meta["ran"].append(rec); print(rec["check"], "seed", seed, "exit", rec["exit"], lines[:1])
                if r.returncode == 1: break
    finally:
        sh(f"git -C {REPO} checkout -- .")
    meta["detected_by"] = sorted({r["check"] for r in meta["ran"] if r["exit"] == 1})
out = os.path.join(ROOT, "seeded", f"{prop}-{int(i) + int(os.environ.get('BANK_OFFSET', '0'))}")
os.makedirs(out, exist_ok=True)
shutil.copy(patch, os.path.join(out, "patch.diff")); shutil.copy(demo, os.path.join(out, "demo.py"))
if os.path.exists(note): shutil.copy(note, os.path.join(out, "note.md"))
meta["needs"] = open(note).read()[:1500] if os.path.exists(note) else ""
json.dump(meta, open(os.path.join(out, "meta.json"), "w"), indent=1)
print("banked", out, "detected_by", meta.get("detected_by"))
# the evidence files written while a seeded change was applied describe the changed tree: put back the committed ones
sh(f"git -C {ROOT} checkout -- evidence")
