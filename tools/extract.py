#!/usr/bin/env python3
"""Translator: regenerate lean/Apimodel/Generated/*.lean from /repo's current working tree.

  extract.py <repo> <outdir>

Wiring.lean  - cache wiring (tools/extract_wiring.py: pure `ast`, nothing imported from the package)
Tables.lean  - literal tables of the package read from the source by `ast` (coercion word table, JSON type
               names, the error message templates, the JSON-schema dialect records, check-only method tuples)
A file is rewritten only when its content changes, so an unchanged tree costs no rebuild."""
import ast, json, os, subprocess, sys

REPO = sys.argv[1] if len(sys.argv) > 1 else "/repo"
OUT = sys.argv[2] if len(sys.argv) > 2 else os.path.join(os.path.dirname(os.path.abspath(__file__)), "..", "lean", "Apimodel", "Generated")
PKG = os.path.join(REPO, "apischema")
HERE = os.path.dirname(os.path.abspath(__file__))


def write_if_changed(path, text):
    try:
        if open(path).read() == text: return False
    except FileNotFoundError:
        pass
    with open(path, "w") as f: f.write(text)
    return True


def parse(rel):
    with open(os.path.join(PKG, rel)) as f:
        return ast.parse(f.read(), rel)


def ls(s): return json.dumps(s, ensure_ascii=False)
def lb(b): return "true" if b else "false"


def module_assign(tree, name):
    for node in tree.body:
        if isinstance(node, ast.Assign) and any(isinstance(t, ast.Name) and t.id == name for t in node.targets):
            return node.value
        if isinstance(node, ast.AnnAssign) and isinstance(node.target, ast.Name) and node.target.id == name:
            return node.value
    return None


def coercion_tables():
    tree = parse("deserialization/coercion.py")
    pairs = module_assign(tree, "_bool_pairs")
    words = []
    if pairs is not None:
        for elt in pairs.elts:                       # ("0", "1"), ("f", "t"), ...
            f, t = [ast.literal_eval(x) for x in elt.elts]
            words += [(f, False), (t, True)]
    none_vals = module_assign(tree, "STR_NONE_VALUES")
    nones = sorted(ast.literal_eval(none_vals)) if none_vals is not None else []
    # how STR_TO_BOOL is derived from the pairs (lower-cased keys are looked up with data.lower())
    src = open(os.path.join(PKG, "deserialization/coercion.py")).read()
    return words, nones, ("data.lower()" in src)


CLS = {"NoneType": ".null", "bool": ".bool", "int": ".int", "float": ".float", "str": ".str", "list": ".list", "dict": ".dict"}
BODY_NONE = "if data is None or (isinstance(data, str) and data in STR_NONE_VALUES):\n    return None\nelse:\n    raise bad_type(data, cls)"
BODY_BOOL = ("if isinstance(data, str):\n    try:\n        return STR_TO_BOOL[data.lower()]\n    except KeyError:\n        raise bad_type(data, cls) from None\n"
             "elif isinstance(data, int):\n    return bool(data)\nelse:\n    raise bad_type(data, cls)")
BODY_STR = "if isinstance(data, (int, float)) and (not isinstance(data, bool)):\n    return str(data)\nelse:\n    raise bad_type(data, cls)"


def coerce_chain():
    """the if / elif / else chain of `coerce(cls, data)` as (guard, action) tokens of Apimodel/CoerceSrc.lean"""
    tree = parse("deserialization/coercion.py")
    fn = next((n for n in tree.body if isinstance(n, ast.FunctionDef) and n.name == "coerce"), None)
    if fn is None or [a.arg for a in fn.args.args] != ["cls", "data"]: return [('.unknown "no coerce(cls, data)"', '.unknown ""')]
    body = [st for st in fn.body if not (isinstance(st, ast.Expr) and isinstance(getattr(st, "value", None), ast.Constant))]
    if len(body) != 1 or not isinstance(body[0], ast.If):
        return [(".otherwise", ".unknown " + ls("\n".join(ast.unparse(st) for st in body)))]
    def guard(test):
        src = ast.unparse(test)
        if isinstance(test, ast.Compare) and len(test.ops) == 1 and isinstance(test.left, ast.Name) and test.left.id == "cls":
            c = test.comparators[0]
            if isinstance(test.ops[0], ast.Is) and isinstance(c, ast.Name) and c.id in CLS: return f".clsIs {CLS[c.id]}"
            if isinstance(test.ops[0], ast.In) and isinstance(c, ast.Tuple) and all(isinstance(e, ast.Name) and e.id in CLS for e in c.elts):
                return ".clsIn [" + ", ".join(CLS[e.id] for e in c.elts) + "]"
        if src == "isinstance(data, cls)": return ".dataIsCls"
        if isinstance(test, ast.BoolOp) and isinstance(test.op, ast.And) and len(test.values) == 2:
            a, b = test.values
            ga = guard(a)
            if ga.startswith(".clsIs ") and isinstance(b, ast.Call) and ast.unparse(b.func) == "isinstance" and len(b.args) == 2 \
                    and ast.unparse(b.args[0]) == "data" and isinstance(b.args[1], ast.Name) and b.args[1].id in CLS:
                return f".clsIsAndDataIs {ga[len('.clsIs '):]} {CLS[b.args[1].id]}"
        return ".unknown " + ls(src)
    def action(stmts):
        src = "\n".join(ast.unparse(st) for st in stmts)
        if src == "return data": return ".returnData"
        if src == "raise bad_type(data, cls)": return ".badType"
        if src == BODY_NONE:
            words, nones, lowered = coercion_tables()
            return ".noneOrIn [" + ", ".join(ls(x) for x in nones) + "]"
        if src == BODY_BOOL: return ".boolBranch true"
        if src == BODY_STR: return ".strBranch"
        if len(stmts) == 1 and isinstance(stmts[0], ast.Try):
            t = stmts[0]
            if "\n".join(ast.unparse(x) for x in t.body) == "return cls(data)" and len(t.handlers) == 1 and not t.orelse and not t.finalbody \
                    and "\n".join(ast.unparse(x) for x in t.handlers[0].body) == "raise bad_type(data, cls) from None":
                ty = t.handlers[0].type
                names = [e.id for e in ty.elts] if isinstance(ty, ast.Tuple) else ([ty.id] if isinstance(ty, ast.Name) else None)
                if names is not None and all(isinstance(n, str) for n in names):
                    return ".construct [" + ", ".join(ls(n) for n in names) + "]"
        return ".unknown " + ls(src)
    chain, node = [], body[0]
    while True:
        chain.append((guard(node.test), action(node.body)))
        if len(node.orelse) == 1 and isinstance(node.orelse[0], ast.If): node = node.orelse[0]; continue
        if node.orelse: chain.append((".otherwise", action(node.orelse)))
        break
    return chain


U_ALT = "alt_methods = tuple((fact.merge(constraints).method for fact in alt_factories))"
U_BYCLS = "method_by_cls = dict(zip((f.cls for f in alt_factories if f.cls is not None), alt_methods))"
U_CONDS = {"len(method_by_cls) == len(alt_factories)": ".classesDistinct", "float not in method_by_cls": ".noFloatClass",
           "not any((isinstance(x, CoercerMethod) for x in alt_methods))": ".noCoercerMethod"}
U_ACTIONS = {"value_method = next((meth for fact, meth in zip(alt_factories, alt_methods) if fact.cls is not NoneType))\nreturn OptionalMethod(value_method, self.coercer)": ".optionalOfNonNone",
             "return UnionByTypeMethod(method_by_cls)": ".byTypeTable", "return UnionMethod(alt_methods)": ".sequential"}


def union_chain():
    """the choice of union method in `DeserializationMethodVisitor.union` as tokens of Apimodel/UnionSrc.lean"""
    tree = parse("deserialization/__init__.py")
    cls = next((n for n in tree.body if isinstance(n, ast.ClassDef) and n.name == "DeserializationMethodVisitor"), None)
    fn = next((n for n in (cls.body if cls else []) if isinstance(n, ast.FunctionDef) and n.name == "union"), None)
    fac = next((n for n in (fn.body if fn else []) if isinstance(n, ast.FunctionDef) and n.name == "factory"), None)
    if fac is None: return [('.unknown "no union().factory"', '.unknown ""')]
    body = [st for st in fac.body if not (isinstance(st, ast.Expr) and isinstance(getattr(st, "value", None), ast.Constant))]
    pre = [ast.unparse(st) for st in body[:-1]]
    if pre != [U_ALT, U_BYCLS] or not isinstance(body[-1], ast.If):
        return [(".otherwise", ".unknown " + ls("\n".join(ast.unparse(st) for st in body)))]
    def guard(test):
        src = ast.unparse(test)
        if src == "NoneType in types and len(alt_methods) == 2": return ".noneInTypesAndTwo"
        parts = test.values if isinstance(test, ast.BoolOp) and isinstance(test.op, ast.And) else [test]
        conds = [U_CONDS.get(ast.unparse(v), ".unknown " + ls(ast.unparse(v))) for v in parts]
        return ".conj [" + ", ".join(conds) + "]"
    def action(stmts):
        src = "\n".join(ast.unparse(st) for st in stmts)
        return U_ACTIONS.get(src, ".unknown " + ls(src))
    chain, node = [], body[-1]
    while True:
        chain.append((guard(node.test), action(node.body)))
        if len(node.orelse) == 1 and isinstance(node.orelse[0], ast.If): node = node.orelse[0]; continue
        if node.orelse: chain.append((".otherwise", action(node.orelse)))
        break
    return chain


def fast_path_conditions():
    """conjuncts of the tests that select the check-only / simple methods in collection(), mapping(), object()"""
    tree = parse("deserialization/__init__.py")
    cls = next((n for n in tree.body if isinstance(n, ast.ClassDef) and n.name == "DeserializationMethodVisitor"), None)
    def conj(test):
        if isinstance(test, ast.BoolOp) and isinstance(test.op, ast.And):
            out = []
            for v in test.values: out += conj(v)
            return out
        return [ast.unparse(test)]
    out = []
    for fn in (cls.body if cls else []):
        if isinstance(fn, ast.FunctionDef) and fn.name in ("collection", "mapping", "object"):
            for node in ast.walk(fn):
                if isinstance(node, ast.If):
                    body = "\n".join(ast.unparse(x) for x in node.body)
                    if "CheckOnly" in body or "SimpleObjectMethod" in body:
                        out.append((fn.name, conj(node.test), [ast.unparse(x).split("(")[0].replace("method = ", "").replace("return ", "") for x in node.body][-1]))
    return out


def error_templates():
    tree = parse("settings.py")
    out = []
    for node in ast.walk(tree):
        if isinstance(node, ast.ClassDef) and node.name == "errors":
            for st in node.body:
                if isinstance(st, ast.AnnAssign) and isinstance(st.target, ast.Name) and st.value is not None:
                    try: out.append((st.target.id, ast.literal_eval(st.value)))
                    except Exception: pass
    return out


def json_types():
    tree = parse("json_schema/types.py")
    out = []
    for node in ast.walk(tree):
        if isinstance(node, ast.ClassDef) and node.name == "JsonType":
            for st in node.body:
                if isinstance(st, ast.Assign) and isinstance(st.targets[0], ast.Name) and isinstance(st.value, ast.Constant):
                    out.append((st.targets[0].id, st.value.value))
    return out


def versions():
    """JsonSchemaVersion records: (name, schema url, ref prefix, conversion function, all_refs, defs)"""
    tree = parse("json_schema/versions.py")
    consts = {}
    for node in tree.body:
        if isinstance(node, ast.Assign) and isinstance(node.targets[0], ast.Name) and isinstance(node.value, ast.Constant):
            consts[node.targets[0].id] = node.value.value
    out = []
    unsupported = module_assign(tree, "OPEN_API_3_0_UNSUPPORTED")
    unsup = sorted(ast.literal_eval(unsupported)) if unsupported is not None else []
    for node in tree.body:
        if isinstance(node, ast.Assign) and isinstance(node.value, ast.Call) and \
                getattr(node.value.func, "id", None) == "JsonSchemaVersion":
            tgt = node.targets[0]
            name = tgt.attr if isinstance(tgt, ast.Attribute) else tgt.id
            args = []
            for a in node.value.args:
                if isinstance(a, ast.Constant): args.append(a.value)
                elif isinstance(a, ast.Name): args.append(consts.get(a.id, a.id))
                else: args.append(ast.unparse(a))
            for kw in node.value.keywords:
                args.append((kw.arg, ast.unparse(kw.value)))
            out.append((name, args))
    # does the 2019-09 rewrite move (pop) `prefixItems` or copy it
    src = open(os.path.join(PKG, "json_schema/versions.py")).read()
    fn = src.split("def to_json_schema_2019_09", 1)[1].split("\ndef ", 1)[0] if "def to_json_schema_2019_09" in src else ""
    keeps = 'result["prefixItems"]' in fn.replace("'", '"') and 'pop("prefixItems")' not in fn.replace("'", '"')
    return out, unsup, keeps


def check_only():
    tree = parse("deserialization/__init__.py")
    out = []
    for node in ast.walk(tree):
        if isinstance(node, ast.Assign) and any(isinstance(t, ast.Name) and t.id == "CHECK_ONLY_METHODS" for t in node.targets):
            if isinstance(node.value, ast.Tuple):
                out = [e.id for e in node.value.elts if isinstance(e, ast.Name)]
    return out


def main():
    os.makedirs(OUT, exist_ok=True)
    r = subprocess.run([sys.executable, os.path.join(HERE, "extract_wiring.py"), REPO], capture_output=True, text=True)
    if r.returncode:
        sys.stderr.write(r.stderr); sys.exit(1)
    changed = write_if_changed(os.path.join(OUT, "Wiring.lean"), r.stdout)
    words, nones, lowered = coercion_tables()
    errs = error_templates(); jt = json_types(); vers, unsup, keeps = versions(); co = check_only()
    L = ["/-! GENERATED by tools/extract.py from the source tree — do not edit -/", "namespace Api.Generated", ""]
    L.append("/-- `_bool_pairs` of deserialization/coercion.py flattened: (word, value) -/")
    L.append("def boolWords : List (String × Bool) := [" + ", ".join(f"({ls(w)}, {lb(b)})" for w, b in words) + "]")
    L.append(f"def boolWordsLowercased : Bool := {lb(lowered)}")
    L.append("def strNoneValues : List String := [" + ", ".join(ls(s) for s in nones) + "]")
    L.append("/-- `settings.errors` templates -/")
    L.append("def errorTemplates : List (String × String) := [\n  " + ",\n  ".join(f"({ls(k)}, {ls(v)})" for k, v in errs) + "]")
    L.append("/-- `JsonType` members -/")
    L.append("def jsonTypes : List (String × String) := [" + ", ".join(f"({ls(k)}, {ls(v)})" for k, v in jt) + "]")
    L.append("/-- keywords dropped by the OpenAPI 3.0 rewrite -/")
    L.append("def oas30Unsupported : List String := [" + ", ".join(ls(s) for s in unsup) + "]")
    L.append("/-- `JsonSchemaVersion` records: name and constructor arguments as written -/")
    L.append("def schemaVersions : List (String × List String) := [\n  " +
             ",\n  ".join(f"({ls(n)}, [" + ", ".join(ls(a if isinstance(a, str) else repr(a)) for a in args) + "])" for n, args in vers) + "]")
    L.append("/-- `to_json_schema_2019_09` copies `prefixItems` instead of moving it -/")
    L.append(f"def keepsPrefixItems : Bool := {lb(keeps)}")
    L.append("def checkOnlyMethods : List String := [" + ", ".join(ls(s) for s in co) + "]")
    L.append("/-- conjuncts of the tests selecting ListCheckOnlyMethod / MappingCheckOnly / SimpleObjectMethod: (visitor method, conjuncts, selected class) -/")
    L.append("def fastPathConds : List (String × List String × String) := [\n  " +
             ",\n  ".join(f"({ls(n)}, [" + ", ".join(ls(c) for c in cs) + f"], {ls(sel)})" for n, cs, sel in fast_path_conditions()) + "]")
    L += ["", "end Api.Generated", ""]
    changed |= write_if_changed(os.path.join(OUT, "Tables.lean"), "\n".join(L))
    C = ["import Apimodel.CoerceSrc", "/-! GENERATED by tools/extract.py from apischema/deserialization/coercion.py — do not edit -/", "namespace Api.Generated", "",
         "/-- the branches of `coerce(cls, data)` in source order -/", "def coerceChain : List (CGuard × CAction) := [\n  " +
         ",\n  ".join(f"({g}, {a})" for g, a in coerce_chain()) + "]", "", "end Api.Generated", ""]
    changed |= write_if_changed(os.path.join(OUT, "Coerce.lean"), "\n".join(C))
    U = ["import Apimodel.UnionSrc", "/-! GENERATED by tools/extract.py from apischema/deserialization/__init__.py (DeserializationMethodVisitor.union) — do not edit -/",
         "namespace Api.Generated", "", "/-- the choice of union method, in source order -/", "def unionChain : List (UGuard × UAction) := [\n  " +
         ",\n  ".join(f"({g}, {a})" for g, a in union_chain()) + "]", "", "end Api.Generated", ""]
    changed |= write_if_changed(os.path.join(OUT, "UnionSel.lean"), "\n".join(U))
    sys.path.insert(0, HERE)
    import extract_bexpr
    changed |= write_if_changed(os.path.join(OUT, "Omit.lean"), extract_bexpr.render(extract_bexpr.omission_exprs(parse)))
    changed |= write_if_changed(os.path.join(OUT, "FieldLoop.lean"), extract_bexpr.render_field_loop(extract_bexpr.field_loop(parse), extract_bexpr.field_loop(parse, "SimpleObjectMethod")))
    import extract_tail
    changed |= write_if_changed(os.path.join(OUT, "ObjTail.lean"), extract_tail.render_obj_tail(extract_tail.obj_tail(parse)))
    changed |= write_if_changed(os.path.join(OUT, "FieldsSetSrc.lean"), extract_bexpr.render_fields_set(extract_bexpr.fields_set_exprs(parse)))
    changed |= write_if_changed(os.path.join(OUT, "OrderSrc.lean"), extract_bexpr.render_order(extract_bexpr.order_src(parse)))
    changed |= write_if_changed(os.path.join(OUT, "VersionsSrc.lean"), extract_bexpr.render_versions(extract_bexpr.versions_src(parse)))
    changed |= write_if_changed(os.path.join(OUT, "RecLock.lean"), extract_tail.render_rec_lock(extract_tail.rec_lock(parse)))
    changed |= write_if_changed(os.path.join(OUT, "GenericsSrc.lean"), extract_tail.render_generics_src(extract_tail.generics_src(parse)))
    changed |= write_if_changed(os.path.join(OUT, "AggSrc.lean"), extract_tail.render_agg_src(extract_tail.agg_src(parse)))
    changed |= write_if_changed(os.path.join(OUT, "MetaSrc.lean"), extract_tail.render_meta_src(extract_tail.meta_src(parse)))
    changed |= write_if_changed(os.path.join(OUT, "RawDc.lean"), extract_tail.render_raw_dc_src(extract_tail.raw_dc_src(parse)))
    changed |= write_if_changed(os.path.join(OUT, "TryShapes.lean"), extract_tail.render_try_shapes(extract_tail.try_shapes(parse)))
    changed |= write_if_changed(os.path.join(OUT, "ConstraintsSrc.lean"), extract_tail.render_constraints(extract_tail.constraints_src(parse)))
    print("generated", "changed" if changed else "unchanged")


main()
