"""Boolean conditions of the source as Lean `BExpr` terms (Apimodel/BExpr.lean): and / or / not / conditional expressions keep
their structure, every other sub-expression becomes an atom named by its source text (`ast.unparse`)."""
import ast, json


def ls(s): return json.dumps(s, ensure_ascii=False)


def bexpr(node):
    if isinstance(node, ast.BoolOp):
        op = ".and" if isinstance(node.op, ast.And) else ".or"
        parts = [bexpr(v) for v in node.values]
        out = parts[-1]
        for p in reversed(parts[:-1]): out = f"({op} {p} {out})"
        return out
    if isinstance(node, ast.UnaryOp) and isinstance(node.op, ast.Not): return f"(.not {bexpr(node.operand)})"
    if isinstance(node, ast.IfExp): return f"(.ite {bexpr(node.test)} {bexpr(node.body)} {bexpr(node.orelse)})"
    if isinstance(node, ast.Call) and isinstance(node.func, ast.Name) and node.func.id == "bool" and len(node.args) == 1 and not node.keywords:
        return bexpr(node.args[0])
    return f"(.atom {ls(ast.unparse(node))})"


def unknown(what): return f"(.atom {ls('UNKNOWN: ' + what)})"


def find_class(tree, name): return next((n for n in tree.body if isinstance(n, ast.ClassDef) and n.name == name), None)
def find_fn(cls, name): return next((n for n in (cls.body if cls else []) if isinstance(n, ast.FunctionDef) and n.name == name), None)
def ann_fields(cls): return [st.target.id for st in (cls.body if cls else []) if isinstance(st, ast.AnnAssign) and isinstance(st.target, ast.Name)]


def omission_exprs(parse):
    """name -> Lean BExpr term, for the omission logic of object serialization"""
    out = {}
    m = parse("serialization/methods.py")
    cf, bf, sf = find_class(m, "ComplexField"), find_class(m, "BaseField"), find_class(m, "SerializedField")
    # ComplexField.__post_init__: self.skippable = bool(...)
    pi = find_fn(cf, "__post_init__")
    st = pi.body[0] if pi and len(pi.body) == 1 else None
    ok = isinstance(st, ast.Assign) and ast.unparse(st.targets[0]) == "self.skippable"
    out["omitSkippable"] = bexpr(st.value) if ok else unknown("ComplexField.__post_init__")
    # ComplexField.update_result: if <present>: value = ...; if <emit>: <write>
    ur = find_fn(cf, "update_result")
    body = [s for s in (ur.body if ur else []) if not (isinstance(s, ast.Expr) and isinstance(s.value, ast.Constant))]
    good = len(body) == 1 and isinstance(body[0], ast.If) and not body[0].orelse and len(body[0].body) == 2 \
        and isinstance(body[0].body[0], ast.Assign) and ast.unparse(body[0].body[0]) == "value = obj[self.name] if self.typed_dict else getattr(obj, self.name)" \
        and isinstance(body[0].body[1], ast.If) and not body[0].body[1].orelse
    if good:
        inner = body[0].body[1]
        writes = "\n".join(ast.unparse(s) for s in inner.body)
        good = writes == "if self.alias is not None:\n    result[self.alias] = self.method.serialize(value, self.alias)\nelse:\n    result.update(self.method.serialize(value, self.alias))"
    out["omitPresent"] = bexpr(body[0].test) if good else unknown("ComplexField.update_result")
    out["omitEmit"] = bexpr(body[0].body[1].test) if good else unknown("ComplexField.update_result")
    # SerializedField.update_result: value = self.func(obj); if <emit>: result[...] = ...
    ur = find_fn(sf, "update_result")
    body = [s for s in (ur.body if ur else []) if not (isinstance(s, ast.Expr) and isinstance(s.value, ast.Constant))]
    good = len(body) == 2 and ast.unparse(body[0]) == "value = self.func(obj)" and isinstance(body[1], ast.If) and not body[1].orelse \
        and "\n".join(ast.unparse(s) for s in body[1].body) == "result[self.alias] = self.method.serialize(value, self.alias)"
    out["serializedEmit"] = bexpr(body[1].test) if good else unknown("SerializedField.update_result")
    # IdentityField / SimpleField always write
    for cname, want in (("IdentityField", "result[self.alias] = getattr(obj, self.name)"), ("SimpleField", "result[self.alias] = self.method.serialize(getattr(obj, self.name), self.alias)")):
        fn = find_fn(find_class(m, cname), "update_result")
        src = "\n".join(ast.unparse(s) for s in (fn.body if fn else []))
        out["always" + cname] = '(.atom "True")' if src == want else unknown(cname + ".update_result: " + src)
    # the visitor: which fields get a ComplexField, and the flags it is given
    v = parse("serialization/__init__.py")
    vis = find_class(v, "SerializationMethodVisitor"); obj = find_fn(vis, "object")
    names = ann_fields(bf) + [n for n in ann_fields(cf) if n != "skippable"]
    sel = None
    for node in ast.walk(obj) if obj else []:
        if isinstance(node, ast.If) and node.body and isinstance(node.body[0], ast.Assign) and ast.unparse(node.body[0].targets[0]) == "base_field" \
                and isinstance(node.body[0].value, ast.Call) and ast.unparse(node.body[0].value.func) == "ComplexField":
            sel = node; break
    if sel is None:
        for k in ("visitComplex", "visitUndefined", "visitSkipNone", "visitSkipDefault", "visitTypedDict", "visitRequired", "visitExcludeUnset"): out[k] = unknown("SerializationMethodVisitor.object")
    else:
        call = sel.body[0].value
        args = dict(zip(names, call.args)); args.update({k.arg: k.value for k in call.keywords})
        out["visitComplex"] = bexpr(sel.test)
        for key, field in (("visitUndefined", "undefined"), ("visitSkipNone", "skip_none"), ("visitSkipDefault", "skip_default"),
                           ("visitTypedDict", "typed_dict"), ("visitRequired", "required"), ("visitExcludeUnset", "exclude_unset")):
            out[key] = bexpr(args[field]) if field in args else unknown("ComplexField(" + field + ")")
        # the plain strategies of the other branches
        rest = []
        node = sel
        while node.orelse:
            if len(node.orelse) == 1 and isinstance(node.orelse[0], ast.If): node = node.orelse[0]; rest.append(ast.unparse(node.body[0].value.func) if isinstance(node.body[0], ast.Assign) and isinstance(node.body[0].value, ast.Call) else "?")
            else: rest.append(ast.unparse(node.orelse[0].value.func) if isinstance(node.orelse[0], ast.Assign) and isinstance(node.orelse[0].value, ast.Call) else "?"); break
        out["visitOtherStrategies"] = "[" + ", ".join(ls(r) for r in rest) + "]"
        # names the flags depend on, as written before the test
        pre = {ast.unparse(s.targets[0]): s.value for s in ast.walk(obj) if isinstance(s, ast.Assign) and len(s.targets) == 1 and isinstance(s.targets[0], ast.Name)}
        out["visitFieldDefaultSrc"] = ls(ast.unparse(pre["field_default"])) if "field_default" in pre else ls("UNKNOWN")
        out["visitTypedDictSrc"] = ls(ast.unparse(pre["typed_dict"])) if "typed_dict" in pre else ls("UNKNOWN")
    # ObjectField.skippable(default, none)
    f = parse("objects/fields.py")
    sk = find_fn(find_class(f, "ObjectField"), "skippable")
    good = sk is not None and [a.arg for a in sk.args.args] == ["self", "default", "none"] and len(sk.body) == 1 and isinstance(sk.body[0], ast.Return)
    out["fieldSkippable"] = bexpr(sk.body[0].value) if good else unknown("ObjectField.skippable")
    return out


def render(exprs):
    L = ["import Apimodel.BExpr", "/-! GENERATED by tools/extract.py from apischema/serialization/methods.py (ComplexField, SerializedField), "
         "apischema/serialization/__init__.py (SerializationMethodVisitor.object) and apischema/objects/fields.py (ObjectField.skippable) — do not edit -/",
         "namespace Api.Generated", "open Api.BExpr", ""]
    for k, v in exprs.items():
        if k == "visitOtherStrategies": L.append(f"def {k} : List String := {v}")
        elif k.endswith("Src"): L.append(f"def {k} : String := {v}")
        else: L.append(f"def {k} : Api.BExpr :=\n  {v}")
    L += ["", "end Api.Generated", ""]
    return "\n".join(L)


# ------------------------------------------------------------------------------------------- the field loop of ObjectMethod.deserialize
FIELD_ACTIONS = {
    "field_errors = set_child_error(field_errors, field.alias, ValidationError(self.missing))": ".missing",
    "requiring = sorted(field.required_by & data.keys())\nerror = ValidationError([self.missing + f' (required by {requiring})'])\n"
    "field_errors = set_child_error(field_errors, field.alias, error)": ".missingRequiredBy",
}


def field_loop(parse, cls="ObjectMethod"):
    """[(guard, action)] of the if / elif chain in the body of `for field in self.fields:` (ObjectMethod / SimpleObjectMethod .deserialize)"""
    m = parse("deserialization/methods.py")
    fn = find_fn(find_class(m, cls), "deserialize")
    loop = next((s for s in (fn.body if fn else []) if isinstance(s, ast.For) and ast.unparse(s.target) == "field" and ast.unparse(s.iter) == "self.fields"), None)
    if loop is None or len(loop.body) != 1 or not isinstance(loop.body[0], ast.If) or loop.orelse:
        return [('(.atom "UNKNOWN: ObjectMethod.deserialize field loop")', '.unknown ""')]
    def action(stmts):
        src = "\n".join(ast.unparse(s) for s in stmts)
        if src in FIELD_ACTIONS: return FIELD_ACTIONS[src]
        # fields_count += 1; try: values[field.name] = field.method.deserialize(data[field.alias]) except ValidationError as err: if <g>: record
        if len(stmts) == 2 and ast.unparse(stmts[0]) == "fields_count += 1" and isinstance(stmts[1], ast.Try):
            t = stmts[1]
            call = "\n".join(ast.unparse(s) for s in t.body)
            kind = {"values[field.name] = field.method.deserialize(data[field.alias])": ".deserialize", "field.method.deserialize(data[field.alias])": ".check"}.get(call)
            if kind is not None and len(t.handlers) == 1 \
                    and not t.orelse and not t.finalbody and ast.unparse(t.handlers[0].type) == "ValidationError" and len(t.handlers[0].body) == 1 \
                    and isinstance(t.handlers[0].body[0], ast.If) and not t.handlers[0].body[0].orelse \
                    and "\n".join(ast.unparse(s) for s in t.handlers[0].body[0].body) == "field_errors = set_child_error(field_errors, field.alias, err)":
                return f"({kind} {bexpr(t.handlers[0].body[0].test)})"
        return ".unknown " + ls(src)
    chain, node = [], loop.body[0]
    while True:
        chain.append((bexpr(node.test), action(node.body)))
        if len(node.orelse) == 1 and isinstance(node.orelse[0], ast.If): node = node.orelse[0]; continue
        if node.orelse: chain.append(('(.atom "True")', action(node.orelse)))
        break
    return chain


def render_field_loop(chain, simple=None):
    extra = [] if simple is None else ["", "/-- the same loop in `SimpleObjectMethod.deserialize` (values are checked, not stored) -/",
             "def fieldLoopSimple : List (Api.BExpr × Api.FAction) := [\n  " + ",\n  ".join(f"({g}, {a})" for g, a in simple) + "]"]
    return "\n".join(["import Apimodel.FieldLoopSrc", "/-! GENERATED by tools/extract.py from apischema/deserialization/methods.py (ObjectMethod.deserialize, the loop over self.fields) — do not edit -/",
                      "namespace Api.Generated", "", "/-- the if / elif chain of the field loop, in source order -/",
                      "def fieldLoop : List (Api.BExpr × Api.FAction) := [\n  " + ",\n  ".join(f"({g}, {a})" for g, a in chain) + "]"] + extra + ["", "end Api.Generated", ""])


# ------------------------------------------------------------------------------------------- with_fields_set (apischema/fields.py)
def sexpr(node):
    """set expressions: | and - keep their structure, {*a, *b} is a union, everything else an atom"""
    if isinstance(node, ast.BinOp) and isinstance(node.op, ast.BitOr): return f"(.union {sexpr(node.left)} {sexpr(node.right)})"
    if isinstance(node, ast.BinOp) and isinstance(node.op, ast.Sub): return f"(.diff {sexpr(node.left)} {sexpr(node.right)})"
    if isinstance(node, ast.Set) and node.elts and all(isinstance(e, ast.Starred) for e in node.elts):
        parts = [sexpr(e.value) for e in node.elts]; out = parts[-1]
        for p in reversed(parts[:-1]): out = f"(.union {p} {out})"
        return out
    return f"(.atom {ls(ast.unparse(node))})"


def fields_set_exprs(parse):
    m = parse("fields.py")
    wfs = next((n for n in m.body if isinstance(n, ast.FunctionDef) and n.name == "with_fields_set"), None)
    out = {}
    inner = {n.name: n for n in (wfs.body if wfs else []) if isinstance(n, ast.FunctionDef)}
    assigns = {ast.unparse(s.targets[0]): s.value for s in (wfs.body if wfs else []) if isinstance(s, ast.Assign) and len(s.targets) == 1}
    out["paramsSrc"] = ls(ast.unparse(assigns["params"])) if "params" in assigns else ls("UNKNOWN")
    ni = inner.get("new_init")
    ni_assigns = [(ast.unparse(s.targets[0]), s.value) for s in (ni.body if ni else []) if isinstance(s, ast.Assign) and len(s.targets) == 1]
    d = dict(ni_assigns)
    out["initArgFields"] = sexpr(d["arg_fields"]) if "arg_fields" in d else '(.atom "UNKNOWN: arg_fields")'
    # the last assignment to the attribute is the state after __init__
    finals = [v for k, v in ni_assigns if k == "self.__dict__[FIELDS_SET_ATTR]"]
    out["initResult"] = sexpr(finals[-1]) if finals else '(.atom "UNKNOWN: new_init result")'
    out["initPrevSrc"] = ls(ast.unparse(d["prev_fields_set"])) if "prev_fields_set" in d else ls("UNKNOWN")
    out["initOrderSrc"] = ls(" ; ".join(k for k, _ in ni_assigns))
    # classification of the dataclass fields: (condition, set that receives the name)
    cls_loop = next((s for s in ast.walk(wfs) if isinstance(s, ast.For) and ast.unparse(s.target) == "field"), None) if wfs else None
    rules = []
    for s in (cls_loop.body if cls_loop else []):
        if isinstance(s, ast.If) and len(s.body) == 1 and not s.orelse and isinstance(s.body[0], ast.Expr) and isinstance(s.body[0].value, ast.Call) \
                and ast.unparse(s.body[0].value.func).endswith(".add") and ast.unparse(s.body[0].value.args[0]) == "field.name":
            rules.append((bexpr(s.test), ast.unparse(s.body[0].value.func)[:-4]))
        elif isinstance(s, ast.Assert): continue
        else: rules.append((f'(.atom {ls("UNKNOWN: " + ast.unparse(s))})', "?"))
    out["classify"] = "[" + ", ".join(f"({g}, {ls(t)})" for g, t in rules) + "]"
    ns = inner.get("new_setattr")
    out["setattrSrc"] = ls("\n".join(ast.unparse(s) for s in ns.body)) if ns else ls("UNKNOWN")
    for fn, key in (("set_fields", "setFields"), ("unset_fields", "unsetFields"), ("_fields_set", "getSet"), ("fields_set", "fieldsSet")):
        node = next((n for n in m.body if isinstance(n, ast.FunctionDef) and n.name == fn), None)
        out[key + "Src"] = ls("\n".join(ast.unparse(s) for s in node.body)) if node else ls("UNKNOWN")
    return out


def render_fields_set(ex):
    L = ["import Apimodel.FieldsSetSrc", "/-! GENERATED by tools/extract.py from apischema/fields.py (with_fields_set, set_fields, unset_fields) — do not edit -/", "namespace Api.Generated", ""]
    for k, v in ex.items():
        if k.endswith("Src"): L.append(f"def fs_{k} : String := {v}")
        elif k == "classify": L.append(f"def fs_{k} : List (Api.BExpr × String) := {v}")
        else: L.append(f"def fs_{k} : Api.SExpr := {v}")
    return "\n".join(L + ["", "end Api.Generated", ""])


# ------------------------------------------------------------------------------------------- sort_by_order (apischema/ordering.py)
def order_src(parse):
    m = parse("ordering.py")
    fn = next((n for n in m.body if isinstance(n, ast.FunctionDef) and n.name == "sort_by_order"), None)
    out = {"chain": [], "pre": "UNKNOWN", "walk": [], "final": "UNKNOWN", "fast": "UNKNOWN", "containers": []}
    if fn is None: return out
    loop = next((s for s in fn.body if isinstance(s, ast.For) and ast.unparse(s.target) == "elt" and ast.unparse(s.iter) == "elts"), None)
    if loop and len(loop.body) == 2 and isinstance(loop.body[0], ast.Assign) and isinstance(loop.body[1], ast.If):
        out["pre"] = ast.unparse(loop.body[0])
        node = loop.body[1]
        while True:
            out["chain"].append((ast.unparse(node.test), "\n".join(ast.unparse(s) for s in node.body)))
            if len(node.orelse) == 1 and isinstance(node.orelse[0], ast.If): node = node.orelse[0]; continue
            if node.orelse: out["chain"].append(("else", "\n".join(ast.unparse(s) for s in node.orelse)))
            break
    out["containers"] = [ast.unparse(s) for s in fn.body if isinstance(s, ast.AnnAssign) and ast.unparse(s.target) in ("groups", "after", "before")]
    fast = next((s for s in fn.body if isinstance(s, ast.If) and isinstance(s.body[0], ast.Return)), None)
    out["fast"] = (ast.unparse(fast.test) + " => " + ast.unparse(fast.body[0])) if fast else "UNKNOWN"
    walk = next((s for s in fn.body if isinstance(s, ast.FunctionDef) and s.name == "add_to_result"), None)
    out["walk"] = [ast.unparse(s) for s in walk.body] if walk else []
    final = [s for s in fn.body if isinstance(s, ast.For) and s is not loop]
    out["final"] = "\n".join(ast.unparse(s) for s in final) + " ; " + ast.unparse(fn.body[-1])
    return out


def render_order(o):
    L = ["/-! GENERATED by tools/extract.py from apischema/ordering.py (sort_by_order) — do not edit -/", "namespace Api.Generated", "",
         "/-- `ordering = ...` at the head of the classification loop -/", f"def ord_effective : String := {ls(o['pre'])}",
         "/-- the if / elif chain that files an element: (test, statement) -/",
         "def ord_chain : List (String × String) := [\n  " + ",\n  ".join(f"({ls(g)}, {ls(a)})" for g, a in o["chain"]) + "]",
         "def ord_containers : List String := [" + ", ".join(ls(c) for c in o["containers"]) + "]",
         f"def ord_fastPath : String := {ls(o['fast'])}",
         "/-- body of `add_to_result`, statement by statement -/", "def ord_walk : List String := [" + ", ".join(ls(c) for c in o["walk"]) + "]",
         f"def ord_final : String := {ls(o['final'])}", "", "end Api.Generated", ""]
    return "\n".join(L)


# ------------------------------------------------------------------------------------------- dialect rewrites (json_schema/versions.py)
def _const_str(node): return node.value if isinstance(node, ast.Constant) and isinstance(node.value, str) else None


def dict_ops(stmts, var):
    """straight-line dict programs: `if "k" in d: ...`, `d[a] = d.pop(b)`, `d[a] = {**d.pop(b), **d.get(a, {})}`, `isolate_ref(d)`, copies, return"""
    out = []
    for s in stmts:
        src = ast.unparse(s)
        if isinstance(s, ast.Expr) and isinstance(s.value, ast.Constant): continue
        if isinstance(s, ast.Assign) and len(s.targets) == 1 and ast.unparse(s.targets[0]) == var and isinstance(s.value, ast.Call):
            f = ast.unparse(s.value.func)
            if f == "schema.copy" and not s.value.args: out.append(".copy"); continue
            if isinstance(s.value.func, ast.Name) and [ast.unparse(a) for a in s.value.args] == ["schema"]: out.append(f".call {ls(f)}"); continue
        if isinstance(s, ast.If) and not s.orelse and isinstance(s.test, ast.Compare) and len(s.test.ops) == 1 and isinstance(s.test.ops[0], ast.In) \
                and _const_str(s.test.left) is not None and ast.unparse(s.test.comparators[0]) == var:
            out.append(f"(.ifHas {ls(_const_str(s.test.left))} [{', '.join(dict_ops(s.body, var))}])"); continue
        if isinstance(s, ast.Assign) and len(s.targets) == 1 and isinstance(s.targets[0], ast.Subscript) and ast.unparse(s.targets[0].value) == var:
            dst = _const_str(s.targets[0].slice)
            v = s.value
            if dst is not None and isinstance(v, ast.Call) and ast.unparse(v.func) == var + ".pop" and len(v.args) == 1 and _const_str(v.args[0]) is not None:
                out.append(f"(.move {ls(_const_str(v.args[0]))} {ls(dst)})"); continue
            if dst is not None and isinstance(v, ast.Dict) and all(k is None for k in v.keys) and len(v.values) == 2:
                a, b = v.values
                if isinstance(a, ast.Call) and ast.unparse(a.func) == var + ".pop" and len(a.args) == 1 and _const_str(a.args[0]) is not None \
                        and ast.unparse(b) == f"{var}.get({dst!r}, {{}})":
                    out.append(f"(.mergeMove {ls(_const_str(a.args[0]))} {ls(dst)})"); continue
        if src == f"isolate_ref({var})": out.append(".isolateRef"); continue
        if src == f"return {var}": out.append(".ret"); continue
        out.append(f"(.unknown {ls(src)})")
    return out


def versions_src(parse):
    m = parse("json_schema/versions.py")
    fns = {n.name: n for n in m.body if isinstance(n, ast.FunctionDef)}
    out = {}
    for name in ("to_json_schema_2019_09", "to_json_schema_7"):
        fn = fns.get(name)
        out[name] = dict_ops(fn.body, "result") if fn and [a.arg for a in fn.args.args] == ["schema"] else [f'(.unknown "no {name}")']
    iso = fns.get("isolate_ref")
    out["isolate_ref_src"] = "\n".join(ast.unparse(s) for s in iso.body) if iso else "UNKNOWN"
    oas = fns.get("to_open_api_3_0")
    out["to_open_api_3_0_src"] = "\n".join(ast.unparse(s) for s in oas.body) if oas else "UNKNOWN"
    return out


def render_versions(v):
    return "\n".join(["import Apimodel.DictOps", "/-! GENERATED by tools/extract.py from apischema/json_schema/versions.py — do not edit -/", "namespace Api.Generated", "",
                      "def ver_to2019 : List Api.DOp := [" + ", ".join(v["to_json_schema_2019_09"]) + "]",
                      "def ver_to7 : List Api.DOp := [" + ", ".join(v["to_json_schema_7"]) + "]",
                      f"def ver_isolateRefSrc : String := {ls(v['isolate_ref_src'])}",
                      f"def ver_toOas30Src : String := {ls(v['to_open_api_3_0_src'])}", "", "end Api.Generated", ""])
